package clover

import (
	"errors"

	d "github.com/ostafen/clover/v2/document"
	"github.com/ostafen/clover/v2/query"
	"github.com/ostafen/clover/v2/zzverif/nd"
	"github.com/ostafen/clover/v2/zzverif/ref"
)

// runOp executes one public operation chosen by op on collection "c" of the standard state.
// It returns the error and whether the operation is a write.
func runOp(e *env, op int) (error, bool) {
	switch op {
	case 0:
		return e.db.Insert("c", mkDoc(map[string]interface{}{"x": 7.0}), mkDoc(map[string]interface{}{"_id": poolIds[3], "x": nil})), true
	case 1:
		return e.db.Update(query.NewQuery("c").Where(query.Field("x").GtEq(-10.0)), map[string]interface{}{"x": 9.0}), true
	case 2: // sorted, windowed bulk update: goes through the sort node
		return e.db.Update(query.NewQuery("c").Sort(query.SortOption{Field: "y", Direction: -1}).Limit(2), map[string]interface{}{"x": 9.0}), true
	case 3:
		return e.db.Delete(query.NewQuery("c").Where(query.Field("x").Lt(100.0))), true
	case 4:
		return e.db.DeleteById("c", poolIds[0]), true
	case 5:
		return e.db.UpdateById("c", poolIds[1], func(doc *d.Document) *d.Document { n := doc.Copy(); n.Set("x", 1.0); return n }), true
	case 6:
		return e.db.ReplaceById("c", poolIds[0], mkDoc(map[string]interface{}{"_id": poolIds[0], "x": "s"})), true
	case 7:
		return e.db.CreateIndex("c", "y"), true
	case 8:
		return e.db.DropIndex("c", "x"), true
	case 9:
		return e.db.DropCollection("c"), true
	case 10:
		return e.db.CreateCollection("fresh"), true
	case 11:
		return e.db.Save("c", mkDoc(map[string]interface{}{"_id": poolIds[1], "x": 3.0})), true
	case 12:
		_, err := e.db.FindAll(query.NewQuery("c").Where(query.Field("x").Gt(0.0)).Sort(query.SortOption{Field: "x"}))
		return err, false
	case 13:
		_, err := e.db.Count(query.NewQuery("c"))
		return err, false
	case 14:
		_, err := e.db.FindById("c", poolIds[0])
		return err, false
	case 15:
		_, err := e.db.ListCollections()
		return err, false
	case 16:
		_, err := e.db.HasIndex("c", "x")
		return err, false
	}
	panic("bad op")
}

const nOps = 17

//verif:harness props=C04,C05,C07,C20 tier=quick bounds="state: 2 documents (x = -1.5 / absent, y), index on x, sibling collection; every operation of {Insert batch, Update, sorted+limited Update, Delete, DeleteById, UpdateById, ReplaceById, CreateIndex, DropIndex, DropCollection, CreateCollection, Save, FindAll sorted, Count, FindById, ListCollections, HasIndex} x every position k<=40 of a failing store call (begin, get, set, delete, cursor, cursor item, commit): the failure is reported, the committed content is unchanged, no transaction stays open, and a follow-up write and read succeed"
func H_C04_store_faults() {
	e := openEnv()
	a := buildState(e, stateCfg{nDocs: 2, idxField: []string{"x"}, sibling: true, fields: func(i int) map[string]interface{} {
		return []map[string]interface{}{{"x": -1.5, "y": 1.0}, {"y": 2.0}}[i]
	}})
	pre := snapshot(e.ms)
	op := nd.Choice("op", nOps)
	k := 1 + nd.Choice("fault.at", 40)
	e.ms.Calls, e.ms.FaultAt, e.ms.FaultHit = 0, k, false
	logStart, commits := len(e.ms.Log), e.ms.Commits
	err, isWrite := runOp(e, op)
	e.ms.FaultAt = 0
	nd.Assume(e.ms.FaultHit) // positions beyond the calls the operation makes are not faults
	nd.Assert("C04.fault.reported", err != nil)
	nd.Assert("C04.fault.unchanged", unchanged(e.ms, pre))
	quiescent("C04.fault", e.ms)
	if isWrite {
		txDiscipline("C05.fault", e.ms, logStart, commits, err)
	}
	audit("C04.fault", e.ms, a)
	// the handle is still usable
	nd.Assert("C04.fault.followup-write", e.db.Insert("c", mkDoc(map[string]interface{}{"_id": poolIds[2], "x": 0.5})) == nil)
	docs, ferr := e.db.FindAll(query.NewQuery("c"))
	nd.Assert("C04.fault.followup-read", ferr == nil && len(docs) == 3)
	// nothing of the failed operation lingers in the handle: catalog, counts and index set are those of the store
	a.coll("c").docs = append(a.coll("c").docs, &absDoc{id: poolIds[2], fields: map[string]interface{}{"_id": poolIds[2], "x": 0.5}})
	n, cerr := e.db.Count(query.NewQuery("c"))
	nd.Assert("C04.fault.followup-count", cerr == nil && n == 3)
	hx, e1 := e.db.HasIndex("c", "x")
	hy, e2 := e.db.HasIndex("c", "y")
	hf, e3 := e.db.HasCollection("fresh")
	nd.Assert("C04.fault.followup-catalog", e1 == nil && e2 == nil && e3 == nil && hx && !hy && !hf)
	byIdx, ierr := e.db.FindAll(query.NewQuery("c").Where(query.Field("x").GtEq(-100.0)))
	nd.Assert("C04.fault.followup-index-query", ierr == nil && len(byIdx) == 2)
	audit("C04.fault.followup", e.ms, a)
	nd.Reach("end")
}

//verif:harness props=C04,C05,C07 tier=quick bounds="same operations without a fault: every write operation uses exactly one write transaction, committed once, with all writes inside it; read operations write nothing and commit nothing"
func H_C05_tx_discipline() {
	e := openEnv()
	buildState(e, stateCfg{nDocs: 2, idxField: []string{"x"}, sibling: true, fields: func(i int) map[string]interface{} {
		return []map[string]interface{}{{"x": -1.5, "y": 1.0}, {"y": 2.0}}[i]
	}})
	pre := snapshot(e.ms)
	op := nd.Choice("op", nOps)
	logStart, commits := len(e.ms.Log), e.ms.Commits
	err, isWrite := runOp(e, op)
	nd.Assert("C05.op.ok", err == nil)
	quiescent("C05.op", e.ms)
	if isWrite {
		txDiscipline("C05.op", e.ms, logStart, commits, err)
	} else {
		nd.Assert("C09.read-does-not-write", unchanged(e.ms, pre) && e.ms.Commits == commits)
		for _, ev := range e.ms.Log[logStart:] {
			nd.Assert("C09.read-issues-no-write", ev.Kind != 3 && ev.Kind != 4)
		}
	}
	nd.Reach("end")
}

// ---------------- invalid input ----------------

//verif:harness props=C04,C12,C20 tier=quick bounds="Update/UpdateFunc/UpdateById whose updater produces an invalid document (malformed _id, another document's _id, nil result) on a 2-document collection with/without index: either an error with unchanged content, or a consistent result in which every record is stored under its own _id and no other document is overwritten"
func H_C12_update_id() {
	e := openEnv()
	a := stdState(e, 2, idxNoneX)
	c := a.coll("c")
	pre := snapshot(e.ms)
	newId := []interface{}{"not-a-uuid", poolIds[1], poolIds[3]}[nd.Choice("newid", 3)]
	var err error
	switch nd.Choice("op", 3) {
	case 0:
		err = e.db.Update(query.NewQuery("c").Where(query.Field("_id").Eq(poolIds[0])), map[string]interface{}{"_id": newId})
	case 1:
		nilResult := nd.Choice("updater.returns-nil", 2) == 1
		err = e.db.UpdateById("c", poolIds[0], func(doc *d.Document) *d.Document {
			if nilResult {
				return nil // no document: must be an error (or a no-op), never a panic
			}
			n := doc.Copy()
			n.Set("_id", newId)
			return n
		})
	case 2:
		err = e.db.UpdateFunc(query.NewQuery("c").Where(query.Field("_id").Eq(poolIds[0])), func(doc *d.Document) *d.Document { n := doc.Copy(); n.Set("_id", newId); return n })
	}
	quiescent("C04.update-id", e.ms)
	if err != nil {
		nd.Assert("C04.update-id.unchanged", unchanged(e.ms, pre))
		nd.Reach("rejected")
	} else {
		// accepted: then it must be a consistent move
		nd.Reach("accepted")
	}
	// whatever happened: every stored record sits under the key of its own _id, and document 2 is intact
	for _, kv := range rawKeys(e.ms, "c:c;d:") {
		doc, derr := d.Decode(kv.V)
		nd.Assert("C12.key-matches-id", derr == nil && string(kv.K) == "c:c;d:"+doc.ObjectId())
	}
	other, ferr := e.db.FindById("c", poolIds[1])
	nd.Assert("C12.other-document-intact", ferr == nil && other != nil && ref.DeepEqual(other.ToMap(), c.doc(poolIds[1]).fields))
	for _, id := range []string{poolIds[0], poolIds[1], poolIds[3]} {
		got, gerr := e.db.FindById("c", id)
		nd.Assert("C12.findbyid-returns-own-id", gerr == nil && (got == nil || got.ObjectId() == id))
	}
	_ = errors.Is
	nd.Reach("end")
}
