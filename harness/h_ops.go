package clover

import (
	"errors"

	d "github.com/ostafen/clover/v2/document"
	"github.com/ostafen/clover/v2/query"
	"github.com/ostafen/clover/v2/zzverif/memstore"
	"github.com/ostafen/clover/v2/zzverif/nd"
	"github.com/ostafen/clover/v2/zzverif/ref"
)

var opValSym = ref.Opts{Kinds: ref.KNil | ref.KFloat, FloatNormal: true}
var opValConc = ref.Opts{Kinds: ref.KNil | ref.KFloat, ConcFloats: true}
var opVal = opValConc
var opLit = ref.Opts{Kinds: ref.KFloat, FloatNormal: true}

// stdState: collection "c" with n documents (field x absent/nil/float64), an index
// configuration chosen among none / x / x and xy (prefix-related names), created
// before or after the data, plus a sibling collection "cx" that shares ids.
func stdState(e *env, n int, idxChoices [][]string) *absDB {
	idx := idxChoices[nd.Choice("indexes", len(idxChoices))]
	return buildState(e, stateCfg{nDocs: n, idxField: idx, sibling: true,
		fields: func(i int) map[string]interface{} { return genFields("d", opVal, "x") }})
}

var idxNoneX = [][]string{{}, {"x"}}
var idxNoneXXY = [][]string{{}, {"x"}, {"x", "xy"}}

// snapshot of the committed raw content, to state "unchanged"
func snapshot(ms *memstore.Store) []memstore.KV {
	refresh(ms)
	return append([]memstore.KV{}, ms.Data...)
}

// unchanged: committed content is byte-identical (document/metadata blobs are immutable values).
func unchanged(ms *memstore.Store, pre []memstore.KV) bool {
	refresh(ms)
	if len(ms.Data) != len(pre) {
		return false
	}
	for i := range pre {
		if string(ms.Data[i].K) != string(pre[i].K) || !sameBlob(ms.Data[i].V, pre[i].V) {
			return false
		}
	}
	return true
}

// quiescent: the operation left no transaction open and began at most one write transaction at a time.
func quiescent(label string, ms *memstore.Store) {
	nd.Assert(label+".no-open-tx", ms.OpenTotal == 0 && ms.OpenWrite == 0)
	nd.Assert(label+".no-nested-write-tx", !ms.Deadlock)
	nd.Assert(label+".no-write-outside-tx", ms.WritesOutsideTx == 0)
}

// txDiscipline checks C05/C07-P1 for one public write operation from the store's event log:
// exactly one write transaction, committed exactly once iff the operation succeeded, all writes inside it.
func txDiscipline(label string, ms *memstore.Store, logStart int, commitsBefore int, err error) {
	if refreshers[ms] != nil {
		return // the transaction log exists only on the reference store
	}
	writeTx, readTx, commits, writesAfterCommit, writes := 0, 0, 0, 0, 0
	committed := map[int]bool{}
	for _, ev := range ms.Log[logStart:] {
		switch ev.Kind {
		case memstore.EvBeginWrite:
			writeTx++
		case memstore.EvBeginRead:
			readTx++
		case memstore.EvCommit:
			if !ev.Err {
				committed[ev.Tx] = true
			}
		case memstore.EvSet, memstore.EvDelete:
			writes++
			if committed[ev.Tx] {
				writesAfterCommit++
			}
		}
	}
	commits = ms.Commits - commitsBefore
	nd.Assert(label+".single-write-tx", writeTx <= 1)
	// C07-P1: checks and writes of one operation share one transaction (a check made in an earlier
	// transaction can be invalidated by a concurrent writer before the write transaction begins)
	nd.Assert(label+".one-transaction-per-operation", writeTx+readTx <= 1)
	nd.Assert(label+".no-write-after-commit", writesAfterCommit == 0)
	if err == nil {
		// a successful operation committed its single transaction, unless it wrote nothing at all
		nd.Assert(label+".success-iff-committed", commits == 1 || (commits == 0 && writes == 0))
	} else {
		nd.Assert(label+".error-commits-nothing", commits == 0)
	}
}

// ---------------- Insert ----------------

func opsInsert(o ref.Opts) {
	opVal = o
	e := openEnv()
	a := stdState(e, nd.Choice("ndocs", 2), idxNoneXXY)
	c := a.coll("c")
	pre := snapshot(e.ms)
	n := 1 + nd.Choice("batch", 2)
	var docs []*d.Document
	var specs []map[string]interface{}
	wantErr, wantDup := false, false
	seen := map[string]bool{}
	for _, x := range c.docs {
		seen[x.id] = true
	}
	for i := 0; i < n; i++ {
		fs := genFields("n", opVal, "x")
		switch nd.Choice("idkind", 6) {
		case 0: // no _id: generated
		case 1:
			fs["_id"] = ""
		case 2: // fresh valid id
			fs["_id"] = poolIds[2+i]
		case 3: // id that is already stored (or, on an empty collection, simply fresh)
			fs["_id"] = poolIds[0]
		case 4:
			fs["_id"] = "not-a-uuid"
			wantErr = true
		case 5: // an _id that is present but not a string is malformed too: rejected, never replaced by a generated one
			fs["_id"] = int64(7)
			wantErr = true
		}
		if id, ok := fs["_id"].(string); ok && id != "" && id != "not-a-uuid" {
			if seen[id] && !wantErr {
				wantDup = true
			}
			seen[id] = true
		}
		if wantDup {
			wantErr = true
		}
		docs = append(docs, mkDoc(fs))
		specs = append(specs, fs)
	}
	logStart, commits := len(e.ms.Log), e.ms.Commits
	err := e.db.Insert("c", docs...)
	quiescent("C04.insert", e.ms)
	txDiscipline("C05.insert", e.ms, logStart, commits, err)
	if wantErr {
		nd.Assert("C12.insert.rejected", err != nil)
		if wantDup && !hasMalformedBeforeDup(specs) {
			nd.Assert("C12.insert.duplicate-key", errors.Is(err, ErrDuplicateKey))
		}
		nd.Assert("C04.insert.unchanged", unchanged(e.ms, pre))
		nd.Reach("rejected")
	} else {
		nd.Assert("C12.insert.ok", err == nil)
		for i, doc := range docs {
			id := doc.ObjectId()
			want, supplied := specs[i]["_id"].(string)
			if supplied && want != "" {
				nd.Assert("C12.insert.keeps-supplied-id", id == want)
			} else {
				nd.Assert("C12.insert.generated-id-valid", len(id) == 36 && c.doc(id) == nil)
			}
			fs := cloneFields(specs[i])
			fs["_id"] = id
			c.docs = append(c.docs, &absDoc{id: id, fields: fs})
		}
		nd.Reach("inserted")
	}
	audit("C06.insert", e.ms, a)
	nd.Reach("end")
}

func hasMalformedBeforeDup(specs []map[string]interface{}) bool {
	for _, s := range specs {
		if _, isStr := s["_id"].(string); s["_id"] == "not-a-uuid" || (s["_id"] != nil && !isStr) {
			return true
		}
	}
	return false
}

// ---------------- Delete / DeleteById / drops ----------------

func opsDelete(o ref.Opts) {
	opVal = o
	e := openEnv()
	a := stdState(e, 2, idxNoneXXY)
	c := a.coll("c")
	logStart, commits := len(e.ms.Log), e.ms.Commits
	pre := snapshot(e.ms)
	var err error
	countAfter := false
	switch nd.Choice("op", 5) {
	case 0:
		crit := genCmpLeaf("c", "x", opLit)
		victims := c.matching(crit)
		err = e.db.Delete(query.NewQuery("c").Where(buildCrit(crit)))
		nd.Assert("C03.delete.ok", err == nil)
		c.docs = minus(c.docs, victims)
		nd.Reach("delete-criteria")
	case 1:
		err = e.db.Delete(query.NewQuery("c"))
		nd.Assert("C03.delete-all.ok", err == nil)
		c.docs = nil
	case 2:
		err = e.db.DeleteById("c", poolIds[1])
		nd.Assert("C03.deletebyid.ok", err == nil)
		c.docs = minus(c.docs, []*absDoc{c.doc(poolIds[1])})
	case 3:
		err = e.db.DeleteById("c", poolIds[3])
		// deleting an absent id: nil or ErrDocumentNotExist, and nothing changes (incl. the count)
		nd.Assert("C06.deletebyid-absent.result", err == nil || errors.Is(err, ErrDocumentNotExist))
		nd.Assert("C06.deletebyid-absent.unchanged", unchanged(e.ms, pre))
		countAfter = true
		nd.Reach("delete-absent")
	case 4:
		err = e.db.DropCollection("c")
		nd.Assert("C03.drop.ok", err == nil)
		a.colls = a.colls[1:]
		nd.Reach("drop")
	}
	quiescent("C04.delete", e.ms)
	if err == nil {
		txDiscipline("C05.delete", e.ms, logStart, commits, err)
	}
	if countAfter {
		n, cerr := e.db.Count(query.NewQuery("c"))
		nd.Assert("C09.count-after-absent-delete", cerr == nil && n == len(c.docs))
	}
	audit("C06.delete", e.ms, a)
	nd.Reach("end")
}

func minus(all []*absDoc, del []*absDoc) []*absDoc {
	var out []*absDoc
	for _, x := range all {
		gone := false
		for _, y := range del {
			if x == y {
				gone = true
			}
		}
		if !gone {
			out = append(out, x)
		}
	}
	return out
}

// ---------------- Update family ----------------

func opsUpdate(o ref.Opts) {
	opVal = o
	e := openEnv()
	a := stdState(e, 2, idxNoneX)
	c := a.coll("c")
	logStart, commits := len(e.ms.Log), e.ms.Commits
	pre := snapshot(e.ms)
	newX := nd.Float64("newx")
	mag := fbits(newX) &^ (1 << 63)
	nd.Assume(mag == 0 || mag >= 0x0170000000000000)
	var err error
	switch nd.Choice("op", 5) {
	case 0:
		crit := genCmpLeaf("c", "x", opLit)
		victims := c.matching(crit)
		err = e.db.Update(query.NewQuery("c").Where(buildCrit(crit)), map[string]interface{}{"x": newX})
		nd.Assert("C03.update.ok", err == nil)
		for _, v := range victims {
			v.fields["x"] = newX
		}
		nd.Reach("update-criteria")
	case 1:
		crit := genCmpLeaf("c", "x", opLit)
		victims := c.matching(crit)
		calls := map[string]int{}
		sawPre := true
		err = e.db.UpdateFunc(query.NewQuery("c").Where(buildCrit(crit)), func(doc *d.Document) *d.Document {
			calls[doc.ObjectId()]++
			if x := c.doc(doc.ObjectId()); x == nil || !ref.DeepEqual(doc.ToMap(), x.fields) {
				sawPre = false
			}
			nw := doc.Copy()
			nw.Set("x", newX)
			return nw
		})
		nd.Assert("C03.updatefunc.ok", err == nil)
		nd.Assert("C03.updatefunc.pre-call-value", sawPre)
		total := 0
		for _, n := range calls {
			total += n
		}
		nd.Assert("C03.updatefunc.once-per-match", total == len(victims))
		for _, v := range victims {
			nd.Assert("C03.updatefunc.called-on-match", calls[v.id] == 1)
			v.fields["x"] = newX
		}
		nd.Reach("updatefunc")
	case 2:
		calls := 0
		err = e.db.UpdateById("c", poolIds[0], func(doc *d.Document) *d.Document {
			calls++
			nw := doc.Copy()
			nw.Set("x", newX)
			return nw
		})
		nd.Assert("C03.updatebyid.ok", err == nil && calls == 1)
		c.doc(poolIds[0]).fields["x"] = newX
	case 3:
		err = e.db.UpdateById("c", poolIds[3], func(doc *d.Document) *d.Document { return doc })
		nd.Assert("C04.updatebyid-missing", errors.Is(err, ErrDocumentNotExist))
		nd.Assert("C04.updatebyid-missing.unchanged", unchanged(e.ms, pre))
	case 4:
		fs := map[string]interface{}{"x": newX}
		if nd.Choice("replace.idmatch", 2) == 1 {
			fs["_id"] = poolIds[0]
			err = e.db.ReplaceById("c", poolIds[0], mkDoc(fs))
			nd.Assert("C12.replace.ok", err == nil)
			c.doc(poolIds[0]).fields = fs
		} else {
			fs["_id"] = poolIds[1]
			err = e.db.ReplaceById("c", poolIds[0], mkDoc(fs))
			nd.Assert("C12.replace.id-mismatch-rejected", err != nil)
			nd.Assert("C12.replace.id-mismatch-unchanged", unchanged(e.ms, pre))
		}
	}
	quiescent("C04.update", e.ms)
	if err == nil {
		txDiscipline("C05.update", e.ms, logStart, commits, err)
	}
	audit("C06.update", e.ms, a)
	nd.Reach("end")
}

// ---------------- index catalog ----------------

func opsIndex(o ref.Opts) { opsIndexFields(o, "x", "xy") }

// opsIndexFields: f1/f2 are a prefix pair (x, xy) or a dotted pair (n, n.a).
func opsIndexFields(o ref.Opts, f1, f2 string) {
	opVal = o
	dotted := f2 == f1+".a"
	e := openEnv()
	a := buildState(e, stateCfg{nDocs: 1 + nd.Choice("ndocs", 2), idxField: [][]string{{}, {f1}, {f2}, {f1, f2}}[nd.Choice("indexes", 4)], sibling: true,
		fields: func(i int) map[string]interface{} {
			if dotted {
				// n is an object holding a (so the index on n keys whole objects, the one on n.a their member),
				// or a plain value (then n.a is absent)
				if nd.Choice("d.n.object", 2) == 1 {
					return map[string]interface{}{f1: map[string]interface{}{"a": []string{"p", "q"}[i%2], "b": ref.Value("d.nb", opVal)}}
				}
				return genFields("d", opVal, f1)
			}
			fs := genFields("d", opVal, f1)
			fs[f2] = []string{"p", "q"}[i%2]
			return fs
		}})
	c := a.coll("c")
	pre := snapshot(e.ms)
	f := []string{f1, f2}[nd.Choice("field", 2)]
	var err error
	if nd.Choice("op", 2) == 0 {
		err = e.db.CreateIndex("c", f)
		if c.hasIndex(f) {
			nd.Assert("C14.create-existing", errors.Is(err, ErrIndexExist))
			nd.Assert("C14.create-existing.unchanged", unchanged(e.ms, pre))
		} else {
			nd.Assert("C14.create.ok", err == nil)
			c.indexes = append(c.indexes, f)
		}
	} else {
		err = e.db.DropIndex("c", f)
		if !c.hasIndex(f) {
			nd.Assert("C14.drop-missing", errors.Is(err, ErrIndexNotExist))
			nd.Assert("C14.drop-missing.unchanged", unchanged(e.ms, pre))
		} else {
			nd.Assert("C14.drop.ok", err == nil)
			var rest []string
			for _, g := range c.indexes {
				if g != f {
					rest = append(rest, g)
				}
			}
			c.indexes = rest
		}
	}
	quiescent("C04.index", e.ms)
	for _, g := range []string{f1, f2} {
		has, herr := e.db.HasIndex("c", g)
		nd.Assert("C14.hasindex", herr == nil && has == c.hasIndex(g))
	}
	infos, lerr := e.db.ListIndexes("c")
	nd.Assert("C14.listindexes", lerr == nil && len(infos) == len(c.indexes))
	for _, in := range infos {
		nd.Assert("C14.listindexes.member", c.hasIndex(in.Field))
	}
	audit("C06.index", e.ms, a)
	// results through the sibling index (sort-only use and filtered use)
	other := f2
	if f == f2 {
		other = f1
	}
	docs, qerr := e.db.FindAll(query.NewQuery("c").Sort(query.SortOption{Field: other, Direction: 1}))
	nd.Assert("C14.sibling-sort", qerr == nil && sameDocSet(docs, c.docs))
	crit := &ref.Crit{Op: ref.OpGtEq, Field: f2, Val: ref.String("sibling.lit", 1)} // symbolic literal: all byte values
	docs, qerr = e.db.FindAll(query.NewQuery("c").Where(buildCrit(crit)))
	nd.Assert("C14.sibling-filter", qerr == nil && sameDocSet(docs, c.matching(crit)))
	nd.Reach("end")
}

//verif:harness props=C12,C06,C04,C05,C13,C20 tier=quick bounds="state: 0-1 documents (x absent/nil/float from {-1.5,0,2.5}), indexes none|x|x+xy created before/after data, sibling collection sharing ids; op: Insert of a batch of 1-2 documents whose _id is missing (generated), empty, fresh valid, already stored, repeated in the batch, malformed, or present but not a string; full audit of the raw store afterwards"
func H_ops_insert() { opsInsert(opValConc) }

//verif:harness props=C12,C06 tier=thorough bounds="as H_ops_insert with symbolic float64 field values (0 or |x|>=2^-1000)"
func H_ops_insert_sym() { opsInsert(opValSym) }

//verif:harness props=C03,C06,C04,C05,C09,C13,C20 tier=quick bounds="state: 2 documents (x absent/nil/float from {-1.5,0,2.5}), indexes none|x|x+xy; ops: Delete(x <op> symbolic float64 literal), Delete(all), DeleteById(present id), DeleteById(absent id), DropCollection; audit + sibling collection untouched"
func H_ops_delete() { opsDelete(opValConc) }

//verif:harness props=C03,C06 tier=thorough bounds="as H_ops_delete with symbolic float64 field values"
func H_ops_delete_sym() { opsDelete(opValSym) }

//verif:harness props=C03,C06,C12,C04,C05,C20 tier=quick bounds="state: 2 documents (x absent/nil/float from {-1.5,0,2.5}), indexes none|x; ops: Update(x <op> symbolic literal, {x: symbolic float64}), UpdateFunc with a counting callback, UpdateById (present/missing), ReplaceById (matching/mismatching id), each rewriting the indexed and filtered field; audit"
func H_ops_update() { opsUpdate(opValConc) }

//verif:harness props=C03,C12 tier=thorough bounds="as H_ops_update with symbolic float64 field values"
func H_ops_update_sym() { opsUpdate(opValSym) }

//verif:harness props=C14,C06,C04,C13,C20 tier=quick bounds="state: 1-2 documents (x absent/nil/float from {-1.5,0,2.5}; xy = string), index sets over {x, xy} (prefix-related names); ops: CreateIndex / DropIndex of x or xy (existing or missing), HasIndex, ListIndexes; then the sibling index still serves exact results (sort-only and filtered use); audit"
func H_ops_index() { opsIndex(opValConc) }

//verif:harness props=C14 tier=thorough bounds="as H_ops_index with symbolic float64 field values"
func H_ops_index_sym() { opsIndex(opValSym) }

//verif:harness props=C14,C06,C18 tier=quick bounds="as H_ops_index for the dotted pair n / n.a: documents whose n is an object {a: string, b: nil/float} or a plain value; indexes on n (keys whole objects) and on n.a (keys the member); create/drop either, the other keeps serving exact results; audit"
func H_ops_index_dotted() { opsIndexFields(opValConc, "n", "n.a") }

//verif:harness props=C03,C06,C15 tier=thorough bounds="H_ops_delete and H_ops_update (field values from {-1.5,0,2.5}, symbolic literals and new values) with the database opened over the real bbolt adapter and over the real badger adapter (library contract stubs; real libraries in replay): same specification and raw-store audit, read back through the store interface"
func H_ops_bulk_adapters() {
	envBackend = 1 + nd.Choice("backend", 2)
	if nd.Choice("family", 2) == 0 {
		opsDelete(opValConc)
	} else {
		opsUpdate(opValConc)
	}
}

//verif:harness props=C03,C15,C08 tier=thorough bounds="H_C03_windowed_bulk over the real bbolt and badger adapters"
func H_C03_windowed_bulk_adapters() {
	envBackend = 1 + nd.Choice("backend", 2)
	H_C03_windowed_bulk()
}
