package clover

import (
	d "github.com/ostafen/clover/v2/document"
	"github.com/ostafen/clover/v2/query"
	"github.com/ostafen/clover/v2/zzverif/nd"
	"github.com/ostafen/clover/v2/zzverif/ref"
)

//verif:harness props=C03,C06,C02,C14 tier=quick bounds="2 documents whose n is an object {a: -1.5 / 2.5, b: 1}; indexes none / on n.a / on n and n.a; one bulk write through the dotted key (Update {\"n.a\": v}), through the ancestor (Update {\"n\": {a: v}}), through UpdateFunc or UpdateById, with v below / between / above the stored keys and criteria on n.a with a symbolic literal; then the audit, an index-served query on n.a and a sort on n.a return every document exactly once with the values last written"
func H_C03_nested_update() {
	e := openEnv()
	cfg := stateCfg{nDocs: 2, fields: func(i int) map[string]interface{} {
		return map[string]interface{}{"n": map[string]interface{}{"a": []float64{-1.5, 2.5}[i], "b": 1.0}}
	}}
	cfg.idxField = [][]string{{}, {"n.a"}, {"n", "n.a"}}[nd.Choice("indexes", 3)]
	a := buildState(e, cfg)
	c := a.coll("c")
	v := []float64{-7, 1, 9}[nd.Choice("new", 3)] // below / between / above the stored keys
	crit := &ref.Crit{Op: []int{ref.OpGtEq, ref.OpLt, ref.OpEq}[nd.Choice("c.op", 3)], Field: "n.a", Val: ref.Value("c.v", opLit)}
	q := query.NewQuery("c").Where(buildCrit(crit))
	victims := c.matching(crit)
	var err error
	apply := func(x *absDoc, whole bool) {
		if whole {
			x.fields["n"] = map[string]interface{}{"a": v}
		} else {
			x.fields["n"].(map[string]interface{})["a"] = v
		}
	}
	switch nd.Choice("write", 4) {
	case 0:
		err = e.db.Update(q, map[string]interface{}{"n.a": v})
		for _, x := range victims {
			apply(x, false)
		}
	case 1:
		err = e.db.Update(q, map[string]interface{}{"n": map[string]interface{}{"a": v}})
		for _, x := range victims {
			apply(x, true)
		}
	case 2:
		calls := 0
		err = e.db.UpdateFunc(q, func(doc *d.Document) *d.Document {
			calls++
			nw := doc.Copy()
			nw.Set("n.a", v)
			return nw
		})
		nd.Assert("C03.nested.updatefunc-once-each", calls == len(victims))
		for _, x := range victims {
			apply(x, false)
		}
	case 3:
		err = e.db.UpdateById("c", poolIds[0], func(doc *d.Document) *d.Document {
			nw := doc.Copy()
			nw.Set("n.a", v)
			return nw
		})
		apply(c.doc(poolIds[0]), false)
	}
	nd.Assert("C03.nested.write-ok", err == nil)
	audit("C06.nested", e.ms, a)
	after := &ref.Crit{Op: ref.OpGtEq, Field: "n.a", Val: ref.Value("after.v", opLit)}
	checkFindAll(e, a, after, "C02.nested.query")
	docs, serr := e.db.FindAll(query.NewQuery("c").Sort(query.SortOption{Field: "n.a", Direction: nd.Int("dir")}))
	nd.Assert("C03.nested.sorted-once-each", serr == nil && sameDocSet(docs, c.docs))
	nd.Reach("end")
}

//verif:harness props=C06,C14,C03 tier=quick bounds="3 documents with distinct fixed x and y; two indexes x and y created in either order; one bulk UpdateFunc over all documents that rewrites only y of the first, only x of the second and nothing of the third (new values below / between / above the stored keys; the criteria literal afterwards is symbolic): afterwards both indexes hold exactly one entry per document under its current value (audit) and serve exact filtered and sorted results"
func H_C06_two_indexes_bulk() {
	e := openEnv()
	cfg := stateCfg{nDocs: 3, fields: func(i int) map[string]interface{} {
		return map[string]interface{}{"x": []float64{-1.5, 0, 2.5}[i], "y": []float64{0, 2.5, -1.5}[i]}
	}}
	newVals := []float64{-7, 1, 9} // below, between and above the stored keys
	cfg.idxField = [][]string{{"x", "y"}, {"y", "x"}}[nd.Choice("index.order", 2)]
	a := buildState(e, cfg)
	c := a.coll("c")
	nx, ny := newVals[nd.Choice("newx", 3)], newVals[nd.Choice("newy", 3)]
	err := e.db.UpdateFunc(query.NewQuery("c"), func(doc *d.Document) *d.Document {
		nw := doc.Copy()
		switch doc.ObjectId() {
		case poolIds[0]:
			nw.Set("y", ny)
		case poolIds[1]:
			nw.Set("x", nx)
		}
		return nw
	})
	nd.Assert("C06.two-indexes.update-ok", err == nil)
	c.doc(poolIds[0]).fields["y"] = ny
	c.doc(poolIds[1]).fields["x"] = nx
	audit("C06.two-indexes", e.ms, a)
	for _, f := range []string{"x", "y"} {
		crit := &ref.Crit{Op: ref.OpGtEq, Field: f, Val: ref.Value("after."+f, opLit)}
		checkFindAll(e, a, crit, "C14.two-indexes."+f)
		docs, serr := e.db.FindAll(query.NewQuery("c").Sort(query.SortOption{Field: f, Direction: 1}))
		nd.Assert("C14.two-indexes.sorted-once-each", serr == nil && sameDocSet(docs, c.docs))
	}
	nd.Reach("end")
}
