package document

import (
	"github.com/ostafen/clover/v2/internal"
	"github.com/ostafen/clover/v2/zzverif/nd"
	"github.com/ostafen/clover/v2/zzverif/ref"
)

var c18Paths = []string{"a", "a.b", "a.b.c", "ab", "a.d"}

func preDoc() *Document {
	doc := NewDocument()
	switch nd.Choice("pre", 5) {
	case 1:
		doc.Set("a", int64(1))
	case 2:
		doc.Set("a", map[string]interface{}{"b": int64(2)})
	case 3:
		doc.Set("a", map[string]interface{}{"b": map[string]interface{}{"c": "x"}, "d": nil})
	case 4:
		doc.Set("ab", true)
		doc.Set("a", nil)
	}
	return doc
}

//verif:harness props=C18 tier=quick bounds="Set(p, v) on documents with 5 pre-existing structures, p in {a, a.b, a.b.c, ab, a.d}, v of any Go integer/float kind (symbolic) or nil/string/slice: afterwards Get(p) = Normalize(v), Has(p); every other top-level path that is not a prefix/extension of p is unchanged; an unsupported value leaves the document unchanged"
func H_C18_paths() {
	doc := preDoc()
	before := doc.ToMap()
	p := c18Paths[nd.Choice("path", len(c18Paths))]
	var v interface{}
	switch nd.Choice("v", 6) {
	case 0:
		v = nd.Int16("v")
	case 1:
		v = nd.Uint32("v")
	case 2:
		v = nd.Float32("v")
	case 3:
		v = nil
	case 4:
		v = []int8{nd.Int8("v")}
	case 5:
		v = make(chan int) // unsupported
	}
	doc.Set(p, v)
	want, err := internal.Normalize(v)
	if err != nil {
		nd.Assert("C18.set-unsupported-leaves-document-unchanged", ref.DeepEqual(doc.ToMap(), before))
		nd.Reach("unsupported")
		return
	}
	nd.Assert("C18.set-then-has", doc.Has(p))
	nd.Assert("C18.set-then-get", ref.DeepEqual(doc.Get(p), want))
	// "ab" and "a" are independent names
	if p == "ab" {
		wa, ha := ref.Lookup(before, "a")
		nd.Assert("C18.prefix-name-independent", doc.Has("a") == ha && ref.DeepEqual(doc.Get("a"), wa))
	}
	if p[0:1] == "a" && p != "ab" {
		wab, hab := ref.Lookup(before, "ab")
		nd.Assert("C18.prefix-name-independent", doc.Has("ab") == hab && ref.DeepEqual(doc.Get("ab"), wab))
	}
	// Get/Has agree with a plain dotted lookup of the map
	for _, q := range c18Paths {
		w, h := ref.Lookup(doc.ToMap(), q)
		nd.Assert("C18.get-has-agree", doc.Has(q) == h && ref.DeepEqual(doc.Get(q), w))
	}
	nd.Reach("end")
}
