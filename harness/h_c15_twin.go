package clover

import (
	"fmt"
	"strings"

	d "github.com/ostafen/clover/v2/document"
	"github.com/ostafen/clover/v2/query"
	"github.com/ostafen/clover/v2/zzverif/nd"
	"github.com/ostafen/clover/v2/zzverif/ref"
)

type twinResult struct {
	errs  []bool
	ids   [][]string
	count []int
}

func errClass(err error) int {
	switch {
	case err == nil:
		return 0
	case isNotExist(err):
		return 1
	}
	return 2
}

// twinScript runs one fixed operation sequence with symbolic parameters against a DB.
func twinScript(db *DB, x0, x1, lit, upd float64, dir int, op int, delta float64) ([]int, [][]string) {
	var errs []int
	var ids [][]string
	rec := func(err error) { errs = append(errs, errClass(err)) }
	find := func(q *query.Query) {
		docs, err := db.FindAll(q)
		rec(err)
		ids = append(ids, idsOf(docs))
	}
	rec(db.CreateCollection("c"))
	rec(db.CreateIndex("c", "x"))
	rec(db.Insert("c", mkDoc(map[string]interface{}{"_id": poolIds[0], "x": x0}), mkDoc(map[string]interface{}{"_id": poolIds[1], "x": x1}), mkDoc(map[string]interface{}{"_id": poolIds[2]})))
	// native replay only: scale the collection so that page-layout-dependent cursor behaviour of the
	// real bbolt library (entries moving across leaf pages during a scan) can show up
	for i := 0; i < replayScale(); i++ {
		rec(db.Insert("c", mkDoc(map[string]interface{}{"_id": fmt.Sprintf("00000000-0000-4000-9000-%012d", i), "x": x0 + float64(i+1), "pad": strings.Repeat("p", 200)})))
	}
	q := query.NewQuery("c").Where(query.Field("x").GtEq(lit))
	find(q.Sort(query.SortOption{Field: "x", Direction: dir}))
	switch op {
	case 0:
		rec(db.Update(q, map[string]interface{}{"x": upd}))
	case 1:
		rec(db.Delete(q))
	case 2:
		rec(db.UpdateFunc(query.NewQuery("c").Sort(query.SortOption{Field: "x", Direction: dir}), func(doc *d.Document) *d.Document {
			n := doc.Copy()
			n.Set("x", upd)
			return n
		}))
	case 5:
		// unsorted bulk update served by the index on x that moves every selected entry ahead of / behind the scan
		calls := 0
		rec(db.UpdateFunc(q, func(doc *d.Document) *d.Document {
			calls++
			n := doc.Copy()
			if _, ok := doc.Get("x").(float64); ok {
				n.Set("x", delta) // a constant beyond every key: all rewritten entries land ahead of (or behind) the scan
			}
			return n
		}))
		errs = append(errs, calls)
	case 3:
		rec(db.DropIndex("c", "x"))
	case 4:
		rec(db.DeleteById("c", poolIds[1]))
	}
	find(query.NewQuery("c").Sort(query.SortOption{Field: "x", Direction: dir}))
	find(query.NewQuery("c").Where(query.Field("x").Lt(lit)))
	n, err := db.Count(query.NewQuery("c"))
	rec(err)
	errs = append(errs, n)
	names, err := db.ListCollections()
	rec(err)
	errs = append(errs, len(names))
	_, err = db.FindAll(query.NewQuery("nope"))
	rec(err)
	return errs, ids
}

func sameInts(a, b []int) bool {
	if len(a) != len(b) {
		return false
	}
	for i := range a {
		if a[i] != b[i] {
			return false
		}
	}
	return true
}

func sameIdLists(a, b [][]string) bool {
	if len(a) != len(b) {
		return false
	}
	for i := range a {
		if len(a[i]) != len(b[i]) {
			return false
		}
		for j := range a[i] {
			if a[i][j] != b[i][j] {
				return false
			}
		}
	}
	return true
}

func normFloat(name string) float64 {
	return ref.Value(name, ref.Opts{Kinds: ref.KFloat, FloatNormal: true}).(float64)
}

//verif:harness props=C15,C03 tier=quick bounds="the same script (create, index, insert 3 documents (one symbolic float64 key, one fixed, one absent), sorted filtered query, then one of Update/Delete/sorted UpdateFunc/DropIndex/DeleteById with symbolic literal, new value and direction, then sorted, filtered and counting reads, catalog and a missing-collection error) on the real bbolt adapter and the real badger adapter over their library contract stubs: identical result sequences, counts and error classes; keys are distinct"
func H_C15_twin_ops() {
	// two symbolic keys (x0, the criteria literal) and two fixed ones keep the number of orderings small
	x0, x1, lit, upd := normFloat("x0"), float64(2.5), normFloat("lit"), float64(-7)
	nd.Assume(x0 != x1) // ties are ordered by id on both stores; distinct keys keep the script deterministic
	dir := nd.Int("dir")
	op := nd.Choice("op", 6)
	delta := []float64{1e300, -1e300}[nd.Choice("delta.sign", 2)]
	dbA, _ := OpenWithStore(openAdapter(0))
	dbB, _ := OpenWithStore(openAdapter(1))
	ea, ia := twinScript(dbA, x0, x1, lit, upd, dir, op, delta)
	eb, ib := twinScript(dbB, x0, x1, lit, upd, dir, op, delta)
	nd.Assert("C15.twin.same-errors-and-counts", sameInts(ea, eb))
	nd.Assert("C15.twin.same-results", sameIdLists(ia, ib))
	nd.Reach("end")
}

//verif:harness props=C15,C06,C14 tier=quick bounds="on each real adapter (bbolt, badger): collection with an index on x and 2 documents (symbolic float64 keys; natively scaled by 400 documents), DropIndex, then no key of that index remains in the store, the documents are intact, and a re-created index holds exactly one entry per document"
func H_C15_dropindex_adapters() {
	backend := nd.Choice("backend", 2)
	st := openAdapter(backend)
	db, _ := OpenWithStore(st)
	nd.Assert("setup.create", db.CreateCollection("c") == nil)
	nd.Assert("setup.index", db.CreateIndex("c", "x") == nil)
	n := 2 + replayScale()
	for i := 0; i < n; i++ {
		var x interface{} = float64(i)
		if i < 2 {
			x = normFloat("x")
		}
		nd.Assert("setup.insert", db.Insert("c", mkDoc(map[string]interface{}{"_id": fmt.Sprintf("00000000-0000-4000-9000-%012d", i), "x": x})) == nil)
	}
	count := func(prefix string) int {
		k := 0
		for _, kv := range dumpStore(st) {
			if strings.HasPrefix(string(kv.K), prefix) {
				k++
			}
		}
		return k
	}
	nd.Assert("C15.dropindex.entries-before", count("c:c;i:x;") == n)
	nd.Assert("C15.dropindex.ok", db.DropIndex("c", "x") == nil)
	nd.Assert("C06.dropindex.no-residue", count("c:c;i:x;") == 0)
	nd.Assert("C06.dropindex.documents-intact", count("c:c;d:") == n)
	nd.Assert("C14.recreate.ok", db.CreateIndex("c", "x") == nil)
	nd.Assert("C14.recreate.exact", count("c:c;i:x;") == n)
	docs, err := db.FindAll(query.NewQuery("c").Sort(query.SortOption{Field: "x", Direction: 1}))
	nd.Assert("C14.recreate.serves", err == nil && len(docs) == n)
	nd.Reach("end")
}
