package clover

import (
	"errors"

	d "github.com/ostafen/clover/v2/document"
	"github.com/ostafen/clover/v2/query"
	"github.com/ostafen/clover/v2/zzverif/nd"
	"github.com/ostafen/clover/v2/zzverif/ref"
)

//verif:harness props=C12,C06,C04 tier=quick bounds="Save on a 1-document collection (index none|x): a document without _id (inserted under a fresh id), with the id of the stored document (replaced), with an unknown valid id (either ErrDocumentNotExist and unchanged, or inserted under exactly that id), with a malformed id (rejected, unchanged); struct input with a clover:\"_id\" tag; audit"
func H_C12_save() {
	e := openEnv()
	a := stdState(e, 1, idxNoneX)
	c := a.coll("c")
	pre := snapshot(e.ms)
	newX := normFloat("newx")
	switch nd.Choice("case", 5) {
	case 0:
		doc := mkDoc(map[string]interface{}{"x": newX})
		nd.Assert("C12.save.insert-ok", e.db.Save("c", doc) == nil)
		id := doc.ObjectId()
		nd.Assert("C12.save.fresh-id", len(id) == 36 && c.doc(id) == nil)
		c.docs = append(c.docs, &absDoc{id: id, fields: map[string]interface{}{"_id": id, "x": newX}})
	case 1:
		fs := map[string]interface{}{"_id": poolIds[0], "x": newX, "k": "v"}
		nd.Assert("C12.save.replace-ok", e.db.Save("c", mkDoc(fs)) == nil)
		c.doc(poolIds[0]).fields = fs
	case 2:
		fs := map[string]interface{}{"_id": poolIds[3], "x": newX}
		err := e.db.Save("c", mkDoc(fs))
		if err != nil {
			nd.Assert("C12.save.unknown-id-error", errors.Is(err, ErrDocumentNotExist))
			nd.Assert("C12.save.unknown-id-unchanged", unchanged(e.ms, pre))
		} else {
			c.docs = append(c.docs, &absDoc{id: poolIds[3], fields: fs})
		}
	case 3:
		err := e.db.Save("c", mkDoc(map[string]interface{}{"_id": "zz", "x": newX}))
		nd.Assert("C12.save.malformed-rejected", err != nil)
		nd.Assert("C12.save.malformed-unchanged", unchanged(e.ms, pre))
	case 4:
		type rec struct {
			Id string  `clover:"_id"`
			X  float64 `clover:"x"`
		}
		nd.Assert("C12.save.struct-ok", e.db.Save("c", &rec{Id: poolIds[0], X: newX}) == nil)
		c.doc(poolIds[0]).fields = map[string]interface{}{"_id": poolIds[0], "x": newX}
	}
	quiescent("C04.save", e.ms)
	audit("C06.save", e.ms, a)
	for _, x := range c.docs {
		got, err := e.db.FindById("c", x.id)
		nd.Assert("C12.save.findbyid", err == nil && got != nil && got.ObjectId() == x.id && ref.DeepEqual(got.ToMap(), x.fields))
	}
	nd.Reach("end")
}

var oddPaths = []string{"", ".", "a.", ".a", "a..b", "a.b", "_id", "_expiresAt"}

//verif:harness props=C20,C18 tier=quick bounds="document and query API on odd but well-typed arguments: Set/Get/Has with empty and dotted-empty path segments on 3 document shapes, Fields, ToMap, Copy, ObjectId/ExpiresAt/TTL/Validate on documents whose _id / _expiresAt hold values of the wrong kind (symbolic number, bool, nil, object), NewDocumentOf on non-map values, criteria builders on such fields evaluated against them: every call returns, nothing panics"
func H_C20_document_api() {
	doc := d.NewDocument()
	switch nd.Choice("shape", 3) {
	case 1:
		doc.Set("a", map[string]interface{}{"b": nd.Int64("ab")})
	case 2:
		doc.Set("a", nd.Float64("a"))
		doc.Set("", "empty-name")
	}
	p := oddPaths[nd.Choice("path", len(oddPaths))]
	var v interface{}
	switch nd.Choice("value", 5) {
	case 0:
		v = nd.Float64("v")
	case 1:
		v = nd.Bool("v")
	case 2:
		v = nil
	case 3:
		v = map[string]interface{}{"k": nd.Int64("v")}
	case 4:
		v = ref.String("v", 1)
	}
	doc.Set(p, v)
	_ = doc.Has(p)
	_ = doc.Get(p)
	_ = doc.Fields(true)
	_ = doc.Fields(false)
	_ = doc.ToMap()
	_ = doc.AsMap()
	cp := doc.Copy()
	_ = cp.ObjectId()
	_ = d.Validate(cp) // an error is fine, a panic is not
	if p != "_expiresAt" {
		_ = cp.ExpiresAt()
		_ = cp.TTL()
	}
	nd.Assert("C20.document.newdocumentof-nonmap", d.NewDocumentOf(nd.Int("n")) == nil && d.NewDocumentOf("s") == nil)
	crits := []query.Criteria{query.Field(p).Exists(), query.Field(p).Eq(v), query.Field(p).Gt(v), query.Field(p).In(v), query.Field(p).Contains(v), query.Field(p).Like("^a"), query.Field(p).IsNilOrNotExists()}
	for _, c := range crits {
		r := c.Satisfy(doc)
		nd.Assert("C20.criteria.not-and-double-not", c.Not().Satisfy(doc) == !r && c.Not().Not().Satisfy(doc) == r)
	}
	nd.Reach("end")
}

//verif:harness props=C03,C06,C12 tier=quick expect=violation bounds="vacuity twin of the operation step harnesses: state construction, one update and the audit are reached and a false assertion after them is reported"
func H_ops_vacuity_twin() {
	e := openEnv()
	a := stdState(e, 1, idxNoneX)
	nd.Assert("twin.update-ok", e.db.Update(query.NewQuery("c"), map[string]interface{}{"x": normFloat("v")}) == nil)
	a.coll("c").docs[0].fields["x"] = nil // deliberately wrong expectation: the audit must notice
	audit("twin", e.ms, a)
}

//verif:harness props=C15 tier=quick expect=violation bounds="vacuity twin of the adapter harnesses: a false expectation about the committed content read back through the bbolt adapter is reported"
func H_C15_vacuity_twin() {
	st := openAdapter(0)
	db, _ := OpenWithStore(st)
	nd.Assert("twin.create", db.CreateCollection("c") == nil)
	nd.Assert("twin.wrong-count", len(dumpStore(st)) == 0)
}
