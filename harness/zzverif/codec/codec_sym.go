// Package codec (engine mode only) stands in for the reflection-driven codecs
// that cannot be encoded: msgpack (document records) is modelled as an identity
// round trip of the value tree through an opaque blob.
package codec

import (
	"errors"
	"fmt"
	"time"
)

var stash = map[string]interface{}{}
var counter int

// FailDecode, when set, makes the next N-th decode fail (store returned garbage).
var ErrDecode = errors.New("codec: injected decode failure")

func put(prefix string, v interface{}) []byte {
	counter++
	h := fmt.Sprintf("%s%04d", prefix, counter)
	stash[h] = v
	return []byte(h)
}

func Get(data []byte) (interface{}, bool) {
	v, ok := stash[string(data)]
	return v, ok
}

func Put(prefix string, v interface{}) []byte { return put(prefix, v) }

// Timer lets the codec treat clover's *LocalizedTime wrapper without importing it.
var CopyLeaf func(v interface{}) (interface{}, bool)

// DeepCopy copies maps and slices; leaves are shared (immutable scalars) unless CopyLeaf handles them.
func DeepCopy(v interface{}) interface{} {
	switch x := v.(type) {
	case map[string]interface{}:
		m := make(map[string]interface{}, len(x))
		for k, e := range x {
			m[k] = DeepCopy(e)
		}
		return m
	case []interface{}:
		s := make([]interface{}, len(x))
		for i, e := range x {
			s[i] = DeepCopy(e)
		}
		return s
	}
	if CopyLeaf != nil {
		if c, ok := CopyLeaf(v); ok {
			return c
		}
	}
	return v
}

// RawTimes counts time.Time values handed to msgpack unwrapped: msgpack's native timestamp keeps only
// the instant, so a raw time loses its zone offset; clover wraps every time in *LocalizedTime first.
var RawTimes int

func countRawTimes(v interface{}) {
	switch x := v.(type) {
	case map[string]interface{}:
		for _, e := range x {
			countRawTimes(e)
		}
	case []interface{}:
		for _, e := range x {
			countRawTimes(e)
		}
	case time.Time:
		RawTimes++
	}
}

//verif:redirect github.com/vmihailenco/msgpack/v5.Marshal MsgpackMarshal
func MsgpackMarshal(v interface{}) ([]byte, error) {
	countRawTimes(v)
	return put("M", DeepCopy(v)), nil
}

//verif:redirect github.com/vmihailenco/msgpack/v5.Unmarshal MsgpackUnmarshal
func MsgpackUnmarshal(data []byte, v interface{}) error {
	x, ok := stash[string(data)]
	if !ok {
		return ErrDecode
	}
	p, isMapPtr := v.(*map[string]interface{})
	if !isMapPtr {
		return errors.New("codec: unsupported msgpack target")
	}
	m, isMap := DeepCopy(x).(map[string]interface{})
	if !isMap {
		return ErrDecode
	}
	*p = m
	return nil
}
