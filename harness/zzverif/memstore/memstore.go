// Package memstore is the reference store used by the harnesses: an ordered
// byte-key map with snapshot transactions, implementing clover's store.Store
// contract exactly as the cursor semantics are documented (forward seek = first
// key >= target, reverse seek = last key <= target, each key visited once in
// order, empty values visible). It records the transaction discipline and can
// inject a failure at the k-th store call.
package memstore

import (
	"bytes"
	"errors"

	"github.com/ostafen/clover/v2/store"
)

var ErrInjected = errors.New("memstore: injected store failure")
var ErrClosed = errors.New("memstore: store is closed")
var ErrTxDone = errors.New("memstore: transaction already finished")
var ErrReadOnly = errors.New("memstore: write in read-only transaction")

type KV struct {
	K, V []byte
}

// Event kinds recorded in Store.Log.
const (
	EvBeginRead = iota
	EvBeginWrite
	EvSet
	EvDelete
	EvGet
	EvCursor
	EvCommit
	EvRollback
	EvClose
)

type Event struct {
	Kind int
	Tx   int
	Err  bool
}

type Store struct {
	Data       []KV // committed content, sorted by key
	Log        []Event
	OpenWrite  int // number of write transactions currently open
	OpenTotal  int
	Closed     bool
	NextTx     int
	LiveCursor bool // cursors see writes made after their creation (default: snapshot at creation)

	// fault injection: the FaultAt-th fallible call (1-based) fails; 0 = never
	FaultAt   int
	Calls     int
	FaultHit  bool
	Deadlock  bool // a second write transaction was begun while one was open
	Commits   int  // committed write transactions
	WritesOutsideTx int
}

func New() *Store { return &Store{} }

func (s *Store) fault() bool {
	s.Calls++
	if s.FaultAt != 0 && s.Calls == s.FaultAt {
		s.FaultHit = true
		return true
	}
	return false
}

func cmp(a, b []byte) int { return bytes.Compare(a, b) }

func clone(b []byte) []byte {
	if b == nil {
		return nil
	}
	c := make([]byte, len(b))
	copy(c, b)
	return c
}

func cloneData(d []KV) []KV {
	out := make([]KV, len(d))
	copy(out, d)
	return out
}

// find returns the index of the first key >= k and whether it equals k.
func find(d []KV, k []byte) (int, bool) {
	for i := range d {
		c := cmp(d[i].K, k)
		if c == 0 {
			return i, true
		}
		if c > 0 {
			return i, false
		}
	}
	return len(d), false
}

func (s *Store) Begin(update bool) (store.Tx, error) {
	if s.Closed {
		return nil, ErrClosed
	}
	if s.fault() {
		return nil, ErrInjected
	}
	tx := &Tx{s: s, writable: update, id: s.NextTx, data: cloneData(s.Data)}
	s.NextTx++
	s.OpenTotal++
	if update {
		if s.OpenWrite > 0 {
			s.Deadlock = true
		}
		s.OpenWrite++
		s.Log = append(s.Log, Event{Kind: EvBeginWrite, Tx: tx.id})
	} else {
		s.Log = append(s.Log, Event{Kind: EvBeginRead, Tx: tx.id})
	}
	return tx, nil
}

func (s *Store) Close() error {
	s.Log = append(s.Log, Event{Kind: EvClose})
	s.Closed = true
	return nil
}

type Tx struct {
	s        *Store
	writable bool
	id       int
	data     []KV
	done     bool
	Writes   int
}

func (t *Tx) finish() {
	if !t.done {
		t.done = true
		t.s.OpenTotal--
		if t.writable {
			t.s.OpenWrite--
		}
	}
}

func (t *Tx) Set(key, value []byte) error {
	if t.done {
		t.s.WritesOutsideTx++
		return ErrTxDone
	}
	if !t.writable {
		return ErrReadOnly
	}
	if t.s.fault() {
		t.s.Log = append(t.s.Log, Event{Kind: EvSet, Tx: t.id, Err: true})
		return ErrInjected
	}
	t.s.Log = append(t.s.Log, Event{Kind: EvSet, Tx: t.id})
	t.Writes++
	i, found := find(t.data, key)
	if found {
		t.data[i] = KV{K: t.data[i].K, V: clone(value)}
		return nil
	}
	nd := make([]KV, 0, len(t.data)+1)
	nd = append(nd, t.data[:i]...)
	nd = append(nd, KV{K: clone(key), V: clone(value)})
	nd = append(nd, t.data[i:]...)
	t.data = nd
	return nil
}

func (t *Tx) Get(key []byte) ([]byte, error) {
	if t.done {
		return nil, ErrTxDone
	}
	if t.s.fault() {
		t.s.Log = append(t.s.Log, Event{Kind: EvGet, Tx: t.id, Err: true})
		return nil, ErrInjected
	}
	i, found := find(t.data, key)
	if !found {
		return nil, nil
	}
	v := t.data[i].V
	if v == nil {
		v = []byte{}
	}
	return v, nil
}

func (t *Tx) Delete(key []byte) error {
	if t.done {
		t.s.WritesOutsideTx++
		return ErrTxDone
	}
	if !t.writable {
		return ErrReadOnly
	}
	if t.s.fault() {
		t.s.Log = append(t.s.Log, Event{Kind: EvDelete, Tx: t.id, Err: true})
		return ErrInjected
	}
	t.s.Log = append(t.s.Log, Event{Kind: EvDelete, Tx: t.id})
	t.Writes++
	i, found := find(t.data, key)
	if !found {
		return nil
	}
	nd := make([]KV, 0, len(t.data))
	nd = append(nd, t.data[:i]...)
	nd = append(nd, t.data[i+1:]...)
	t.data = nd
	return nil
}

func (t *Tx) Commit() error {
	if t.done {
		return ErrTxDone
	}
	if t.s.fault() {
		t.s.Log = append(t.s.Log, Event{Kind: EvCommit, Tx: t.id, Err: true})
		t.finish()
		return ErrInjected
	}
	t.s.Log = append(t.s.Log, Event{Kind: EvCommit, Tx: t.id})
	if t.writable {
		t.s.Data = t.data
		t.s.Commits++
	}
	t.finish()
	return nil
}

func (t *Tx) Rollback() error {
	if !t.done {
		t.s.Log = append(t.s.Log, Event{Kind: EvRollback, Tx: t.id})
	}
	t.finish()
	return nil
}

func (t *Tx) Cursor(forward bool) (store.Cursor, error) {
	if t.done {
		return nil, ErrTxDone
	}
	if t.s.fault() {
		return nil, ErrInjected
	}
	t.s.Log = append(t.s.Log, Event{Kind: EvCursor, Tx: t.id})
	c := &Cursor{t: t, forward: forward, pos: -1}
	if !t.s.LiveCursor {
		c.snap = t.data // Set/Delete replace t.data, so this slice is a stable snapshot...
		c.snap = cloneData(t.data)
	}
	return c, nil
}

type Cursor struct {
	t       *Tx
	forward bool
	snap    []KV
	pos     int // index into view(); -1 or len = invalid
	cur     []byte
	valid   bool
}

func (c *Cursor) view() []KV {
	if c.t.s.LiveCursor {
		return c.t.data
	}
	return c.snap
}

func (c *Cursor) Seek(key []byte) error {
	d := c.view()
	i, found := find(d, key)
	if c.forward {
		c.setPos(d, i)
	} else {
		if found {
			c.setPos(d, i)
		} else {
			c.setPos(d, i-1)
		}
	}
	return nil
}

func (c *Cursor) setPos(d []KV, i int) {
	if i < 0 || i >= len(d) {
		c.valid = false
		c.cur = nil
		return
	}
	c.valid = true
	c.pos = i
	c.cur = d[i].K
}

func (c *Cursor) Next() {
	if !c.valid {
		return
	}
	d := c.view()
	if !c.t.s.LiveCursor {
		if c.forward {
			c.setPos(d, c.pos+1)
		} else {
			c.setPos(d, c.pos-1)
		}
		return
	}
	// live view: reposition relative to the current key
	i, found := find(d, c.cur)
	if c.forward {
		if found {
			c.setPos(d, i+1)
		} else {
			c.setPos(d, i)
		}
	} else {
		c.setPos(d, i-1)
	}
}

func (c *Cursor) Valid() bool { return c.valid }

func (c *Cursor) Item() (store.Item, error) {
	if !c.valid {
		return store.Item{}, errors.New("memstore: Item on invalid cursor")
	}
	if c.t.s.fault() {
		return store.Item{}, ErrInjected
	}
	d := c.view()
	var kv KV
	if c.t.s.LiveCursor {
		i, found := find(d, c.cur)
		if !found {
			return store.Item{}, errors.New("memstore: current key vanished")
		}
		kv = d[i]
	} else {
		kv = d[c.pos]
	}
	v := kv.V
	if v == nil {
		v = []byte{}
	}
	return store.Item{Key: clone(kv.K), Value: v}, nil
}

func (c *Cursor) Close() error { return nil }
