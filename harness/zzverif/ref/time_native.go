package ref

import "time"

// native replay: also the zone offset must survive (times are generated in a fixed non-local zone)
func sameTime(a, b time.Time) bool {
	_, oa := a.Zone()
	_, ob := b.Zone()
	return a.Equal(b) && oa == ob
}
