package ref

// Rng mirrors the public fields of index.Range.
type Rng struct {
	Start, End                 interface{}
	StartIncluded, EndIncluded bool
}

// InRange: the documented meaning of a range. Start=nil,!StartIncluded is
// "unbounded below" (and so includes nil values), End=nil,!EndIncluded is
// "unbounded above"; Start=End=nil both included is the nil-only range.
func InRange(r Rng, v interface{}) bool {
	lo := true
	if !(r.Start == nil && !r.StartIncluded) {
		c := Compare(v, r.Start)
		lo = c > 0 || (c == 0 && r.StartIncluded)
	}
	hi := true
	if !(r.End == nil && !r.EndIncluded) {
		c := Compare(v, r.End)
		hi = c < 0 || (c == 0 && r.EndIncluded)
	}
	return lo && hi
}

// InDomain: ranges with at least one non-nil bound, plus the nil-only range.
func (r Rng) InDomain() bool {
	if r.Start != nil || r.End != nil {
		return true
	}
	return r.StartIncluded && r.EndIncluded
}
