package ref

import "time"

// engine mode: time.Time is an opaque instant (zone information is outside every claim)
func sameTime(a, b time.Time) bool { return a.UnixNano() == b.UnixNano() }
