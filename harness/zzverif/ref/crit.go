package ref

import (
	"regexp"
	"strings"
	"time"
)

// Criteria operators of the specification-level criteria tree.
const (
	OpExists = iota
	OpNotExists
	OpEq
	OpNeq
	OpGt
	OpGtEq
	OpLt
	OpLtEq
	OpLike
	OpIn
	OpContains
	OpFunc
	OpAnd
	OpOr
	OpNot
)

// FieldRef is an operand that names another field of the document under test.
type FieldRef struct {
	Name   string
	Dollar bool // written as the string "$name" instead of query.Field(name)
}

// Crit is a criteria tree described independently of clover's types.
type Crit struct {
	Op      int
	Field   string
	Val     interface{}   // literal (canonical value) or FieldRef
	Vals    []interface{} // In / Contains
	Pattern string        // Like
	FuncRes bool          // result of a MatchFunc leaf
	A, B    *Crit
}

// Lookup follows a dotted path; ok=false when the field is absent.
func Lookup(doc map[string]interface{}, path string) (interface{}, bool) {
	parts := strings.Split(path, ".")
	cur := doc
	for i, p := range parts {
		v, ok := cur[p]
		if !ok {
			return nil, false
		}
		if i == len(parts)-1 {
			return v, true
		}
		m, isMap := v.(map[string]interface{})
		if !isMap {
			return nil, false
		}
		cur = m
	}
	return nil, false
}

func operand(doc map[string]interface{}, v interface{}) interface{} {
	if fr, ok := v.(FieldRef); ok {
		x, _ := Lookup(doc, fr.Name) // absent => nil
		return x
	}
	// a string literal that starts with '$' denotes the field named by the rest
	if s, ok := v.(string); ok && len(s) > 0 && s[0] == '$' {
		i := 0
		for i < len(s) && s[i] == '$' {
			i++
		}
		x, _ := Lookup(doc, s[i:])
		return x
	}
	return v
}

// Satisfy is the documented criteria semantics.
func Satisfy(c *Crit, doc map[string]interface{}) bool {
	switch c.Op {
	case OpAnd:
		return Satisfy(c.A, doc) && Satisfy(c.B, doc)
	case OpOr:
		return Satisfy(c.A, doc) || Satisfy(c.B, doc)
	case OpNot:
		return !Satisfy(c.A, doc)
	case OpFunc:
		return c.FuncRes
	}
	fv, present := Lookup(doc, c.Field)
	switch c.Op {
	case OpExists:
		return present
	case OpNotExists:
		return !present
	case OpEq:
		return present && Compare(fv, operand(doc, c.Val)) == 0
	case OpNeq:
		return !(present && Compare(fv, operand(doc, c.Val)) == 0)
	case OpGt:
		return Compare(fv, operand(doc, c.Val)) > 0
	case OpGtEq:
		return Compare(fv, operand(doc, c.Val)) >= 0
	case OpLt:
		return Compare(fv, operand(doc, c.Val)) < 0
	case OpLtEq:
		return Compare(fv, operand(doc, c.Val)) <= 0
	case OpIn:
		for _, v := range c.Vals {
			if Compare(fv, operand(doc, v)) == 0 {
				return true
			}
		}
		return false
	case OpContains:
		arr, isArr := fv.([]interface{})
		if !isArr {
			return false
		}
		for _, want := range c.Vals {
			w := operand(doc, want)
			found := false
			for _, e := range arr {
				if Compare(e, w) == 0 {
					found = true
					break
				}
			}
			if !found {
				return false
			}
		}
		return true
	case OpLike:
		s, isStr := fv.(string)
		if !isStr {
			return false
		}
		ok, err := regexp.MatchString(c.Pattern, s)
		return ok && err == nil
	}
	panic("ref: bad criteria op")
}

// DeepEqual: same dynamic types and values (type-and-value equality of canonical values).
func DeepEqual(a, b interface{}) bool {
	if Rank(a) != Rank(b) {
		return false
	}
	switch x := a.(type) {
	case nil:
		return b == nil
	case int64:
		y, ok := b.(int64)
		return ok && x == y
	case uint64:
		y, ok := b.(uint64)
		return ok && x == y
	case float64:
		y, ok := b.(float64)
		return ok && (x == y)
	case string:
		y, ok := b.(string)
		return ok && x == y
	case bool:
		y, ok := b.(bool)
		return ok && x == y
	case []interface{}:
		y, ok := b.([]interface{})
		if !ok || len(x) != len(y) {
			return false
		}
		for i := range x {
			if !DeepEqual(x[i], y[i]) {
				return false
			}
		}
		return true
	case map[string]interface{}:
		y, ok := b.(map[string]interface{})
		if !ok || len(x) != len(y) {
			return false
		}
		for k, v := range x {
			w, has := y[k]
			if !has || !DeepEqual(v, w) {
				return false
			}
		}
		return true
	}
	// time.Time: same instant (and, in native replays, the same zone offset)
	ta, okA := a.(time.Time)
	tb, okB := b.(time.Time)
	return okA && okB && sameTime(ta, tb)
}
