// Package ref holds the reference oracles and symbolic value generators used
// by the harnesses. It is written from the property statements, not from
// clover's code, and depends on nothing in clover.
package ref

import (
	"bytes"
	"math"
	"sort"
	"strings"
	"time"

	"github.com/ostafen/clover/v2/zzverif/nd"
)

// Kind bits for Value generation.
const (
	KNil = 1 << iota
	KInt
	KUint
	KFloat
	KString
	KBool
	KTime
	KArray
	KObject

	KNumber = KInt | KUint | KFloat
	KPrim   = KNil | KNumber | KString | KBool | KTime
	KAll    = KPrim | KArray | KObject
)

// Opts bounds the generated values.
type Opts struct {
	Kinds     int
	ElemKinds int  // kinds of container elements (depth 1)
	MaxStr    int  // max string length (bytes are symbolic)
	MaxElems  int  // max container size
	IntSafe   bool // integers restricted to [-2^53, 2^53] (and uint <= 2^53)
	TimeKey   bool // times restricted to >= 1970 (UnixNano >= 0)
	SmallInts bool // integers from a concrete boundary set (keeps int->float conversions out of the solver)
	// FloatNormal restricts doubles to 0, -0 or magnitude >= 2^-1000 (incl. +-Inf): all such values have index
	// keys of one of two lengths, which keeps the key-length case split of orderedcode.appendInt64 at 3 cases
	// per value; the shorter encodings of tinier doubles are covered by the C10 key harnesses over all doubles.
	FloatNormal bool
	ConcFloats  bool // doubles from the concrete boundary set concFloats (keys become concrete)
	OneFloat    bool // with ConcFloats: only the value 0
	TwoFloats   bool // with ConcFloats: only the values 0 and 2.5
	// ElemConc: doubles INSIDE containers come from the concrete set. A container key embeds the element
	// encodings as an escaped string, so every symbolic byte of an embedded double forks three ways
	// (0x00 / 0xff / other) in orderedcode.appendString: 3^9 paths per symbolic double element.
	ElemConc bool
}

var concFloats = []float64{-1.5, 0, 2.5}

var kindList = []int{KNil, KInt, KUint, KFloat, KString, KBool, KTime, KArray, KObject}

func kindsOf(mask int) []int {
	var out []int
	for _, k := range kindList {
		if mask&k != 0 {
			out = append(out, k)
		}
	}
	return out
}

var smallInts = []int64{-1, 0, 1, 2, 1 << 53}
var smallUints = []uint64{0, 1, 2, 1 << 53}

// String builds a string of length 0..max with symbolic bytes.
func String(name string, max int) string {
	n := nd.Choice(name+".len", max+1)
	b := make([]byte, n)
	for i := 0; i < n; i++ {
		b[i] = nd.Byte(name + ".b")
	}
	return string(b)
}

var objKeys = []string{"a", "ab", "b"}

// Value returns an arbitrary clover value of one of the allowed kinds.
func Value(name string, o Opts) interface{} {
	ks := kindsOf(o.Kinds)
	k := ks[nd.Choice(name+".kind", len(ks))]
	switch k {
	case KNil:
		return nil
	case KInt:
		if o.SmallInts {
			return smallInts[nd.Choice(name+".i", len(smallInts))]
		}
		v := nd.Int64(name + ".i")
		if o.IntSafe {
			nd.Assume(v >= -(1<<53) && v <= (1<<53))
		}
		return v
	case KUint:
		if o.SmallInts {
			return smallUints[nd.Choice(name+".u", len(smallUints))]
		}
		v := nd.Uint64(name + ".u")
		if o.IntSafe {
			nd.Assume(v <= (1 << 53))
		}
		return v
	case KFloat:
		if o.ConcFloats {
			if o.OneFloat {
				return float64(0)
			}
			if o.TwoFloats {
				return []float64{0, 2.5}[nd.Choice(name+".cf", 2)]
			}
			return concFloats[nd.Choice(name+".cf", len(concFloats))]
		}
		f := nd.Float64(name + ".f")
		if o.FloatNormal {
			mag := math.Float64bits(f) &^ (1 << 63)
			nd.Assume(mag == 0 || mag >= 0x0170000000000000)
		}
		return f
	case KString:
		return String(name+".s", o.MaxStr)
	case KBool:
		return nd.Bool(name + ".t")
	case KTime:
		t := nd.TimeNanos(name + ".tm")
		if o.TimeKey {
			nd.Assume(t.UnixNano() >= 0)
		}
		return t
	case KArray:
		n := nd.Choice(name+".n", o.MaxElems+1)
		eo := o
		eo.Kinds = o.ElemKinds
		eo.ConcFloats = o.ConcFloats || o.ElemConc
		a := make([]interface{}, n)
		for i := 0; i < n; i++ {
			a[i] = Value(name+".e", eo)
		}
		return a
	case KObject:
		eo := o
		eo.Kinds = o.ElemKinds
		eo.ConcFloats = o.ConcFloats || o.ElemConc
		m := map[string]interface{}{}
		// every subset of objKeys of size <= MaxElems
		cnt := 0
		for _, key := range objKeys {
			if cnt < o.MaxElems && nd.Choice(name+".has."+key, 2) == 1 {
				m[key] = Value(name+".m."+key, eo)
				cnt++
			}
		}
		return m
	}
	return nil
}

// Rank is the documented type order: nil < number < string < object < array < bool < time.
func Rank(v interface{}) int {
	switch v.(type) {
	case nil:
		return 0
	case int64, uint64, float64:
		return 1
	case string:
		return 2
	case map[string]interface{}:
		return 3
	case []interface{}:
		return 4
	case bool:
		return 5
	case time.Time:
		return 6
	}
	return -1
}

func cmpI(a, b int64) int {
	if a < b {
		return -1
	}
	if a > b {
		return 1
	}
	return 0
}

func cmpU(a, b uint64) int {
	if a < b {
		return -1
	}
	if a > b {
		return 1
	}
	return 0
}

func cmpF(a, b float64) int {
	if a < b {
		return -1
	}
	if a > b {
		return 1
	}
	return 0
}

func cmpIU(a int64, b uint64) int {
	if a < 0 {
		return -1
	}
	return cmpU(uint64(a), b)
}

func cmpNum(a, b interface{}) int {
	switch x := a.(type) {
	case int64:
		switch y := b.(type) {
		case int64:
			return cmpI(x, y)
		case uint64:
			return cmpIU(x, y)
		case float64:
			return cmpF(float64(x), y)
		}
	case uint64:
		switch y := b.(type) {
		case int64:
			return -cmpIU(y, x)
		case uint64:
			return cmpU(x, y)
		case float64:
			return cmpF(float64(x), y)
		}
	case float64:
		switch y := b.(type) {
		case int64:
			return cmpF(x, float64(y))
		case uint64:
			return cmpF(x, float64(y))
		case float64:
			return cmpF(x, y)
		}
	}
	panic("ref: not numbers")
}

func cmpStr(a, b string) int { return strings.Compare(a, b) }

func sortedKeys(m map[string]interface{}) []string {
	ks := make([]string, 0, len(m))
	for k := range m {
		ks = append(ks, k)
	}
	sort.Strings(ks)
	return ks
}

// Compare is the documented total preorder; it returns -1, 0 or 1.
func Compare(a, b interface{}) int {
	ra, rb := Rank(a), Rank(b)
	if ra != rb {
		return cmpI(int64(ra), int64(rb))
	}
	switch x := a.(type) {
	case nil:
		return 0
	case int64, uint64, float64:
		return cmpNum(a, b)
	case string:
		return cmpStr(x, b.(string))
	case bool:
		y := b.(bool)
		if x == y {
			return 0
		}
		if !x {
			return -1
		}
		return 1
	case time.Time:
		return cmpI(x.UnixNano(), b.(time.Time).UnixNano())
	case []interface{}:
		y := b.([]interface{})
		for i := 0; i < len(x) && i < len(y); i++ {
			if c := Compare(x[i], y[i]); c != 0 {
				return c
			}
		}
		return cmpI(int64(len(x)), int64(len(y)))
	case map[string]interface{}:
		y := b.(map[string]interface{})
		kx, ky := sortedKeys(x), sortedKeys(y)
		for i := 0; i < len(kx) && i < len(ky); i++ {
			if c := cmpStr(kx[i], ky[i]); c != 0 {
				return c
			}
			if c := Compare(x[kx[i]], y[ky[i]]); c != 0 {
				return c
			}
		}
		return cmpI(int64(len(kx)), int64(len(ky)))
	}
	panic("ref: unsupported value")
}

func Sgn(x int) int {
	if x < 0 {
		return -1
	}
	if x > 0 {
		return 1
	}
	return 0
}

// CmpBytes is bytewise lexicographic comparison.
func CmpBytes(a, b []byte) int { return bytes.Compare(a, b) }

func IsPrefix(p, s []byte) bool { return bytes.HasPrefix(s, p) }
