// Package libstub (engine mode only) models the library surface below clover's
// two store adapters by its documented contract, so that the REAL adapter code
// (store/bbolt, store/badger) is what the engine executes.
//
// bbolt: one ordered byte-key map in a root bucket; a write transaction works on
// a private copy published at Commit, a read transaction is a snapshot; Seek =
// first key >= target or (nil,nil); a value Put as nil reads back nil inside the
// same transaction (node.put keeps the caller's nil) and as an empty non-nil
// slice after commit (observed on the real library).
//
// badger: ordered map; a transaction reads its own writes; an iterator shows the
// committed data plus the transaction's pending writes as of iterator creation;
// reverse Seek(k) = last key <= k; missing key => ErrKeyNotFound; keys with
// empty values are visible.
package libstub

import (
	"bytes"
	"errors"
	"os"

	"github.com/dgraph-io/badger/v4"
	"go.etcd.io/bbolt"
)

type kv struct {
	k, v   []byte
	nilVal bool // bbolt: value was Put as nil in the current transaction
}

func find(d []kv, k []byte) (int, bool) {
	for i := range d {
		c := bytes.Compare(d[i].k, k)
		if c == 0 {
			return i, true
		}
		if c > 0 {
			return i, false
		}
	}
	return len(d), false
}

func put(d []kv, e kv) []kv {
	i, found := find(d, e.k)
	if found {
		nd := append([]kv{}, d...)
		nd[i] = e
		return nd
	}
	nd := make([]kv, 0, len(d)+1)
	nd = append(nd, d[:i]...)
	nd = append(nd, e)
	nd = append(nd, d[i:]...)
	return nd
}

func del(d []kv, k []byte) []kv {
	i, found := find(d, k)
	if !found {
		return d
	}
	nd := make([]kv, 0, len(d))
	nd = append(nd, d[:i]...)
	nd = append(nd, d[i+1:]...)
	return nd
}

func clone(b []byte) []byte { return append([]byte{}, b...) }

// ---------------- bbolt ----------------

type boltDB struct {
	data      []kv
	hasRoot   bool
	writers   int
	Options   *bbolt.Options
	Deadlock  bool
	OpenTxs   int
}

type boltTx struct {
	db       *boltDB
	writable bool
	data     []kv
	hasRoot  bool
	done     bool
	bucket   *bbolt.Bucket
	cursors  []*boltCur
}

// boltCur: a cursor of the writing transaction keeps standing on "its" key when the transaction inserts or
// deletes other keys (real bbolt: a positioned cursor keeps reading the leaf it is on), a key deleted under
// the cursor makes Next land on its successor, and keys inserted AHEAD of the cursor are met later on
// (real bbolt: they are seen once the scan reaches a leaf that was rewritten) - the last point is what makes
// a scan that rewrites its own index entries revisit documents.
type boltCur struct {
	tx      *boltTx
	pos     int
	deleted bool // the key under the cursor was deleted: its successor now sits at pos
}

var boltDBs = map[*bbolt.DB]*boltDB{}
var boltTxs = map[*bbolt.Tx]*boltTx{}
var boltBuckets = map[*bbolt.Bucket]*boltTx{}
var boltCursors = map[*bbolt.Cursor]*boltCur{}
var LastBoltDB *boltDB

//verif:redirect go.etcd.io/bbolt.Open BoltOpen
func BoltOpen(path string, mode os.FileMode, options *bbolt.Options) (*bbolt.DB, error) {
	h := &bbolt.DB{}
	s := &boltDB{Options: options}
	boltDBs[h] = s
	LastBoltDB = s
	return h, nil
}

//verif:redirect (*go.etcd.io/bbolt.DB).Begin BoltBegin
func BoltBegin(db *bbolt.DB, writable bool) (*bbolt.Tx, error) {
	s := boltDBs[db]
	if writable {
		if s.writers > 0 {
			s.Deadlock = true
		}
		s.writers++
	}
	s.OpenTxs++
	h := &bbolt.Tx{}
	boltTxs[h] = &boltTx{db: s, writable: writable, data: s.data, hasRoot: s.hasRoot}
	return h, nil
}

//verif:redirect (*go.etcd.io/bbolt.DB).Close BoltClose
func BoltClose(db *bbolt.DB) error { return nil }

func (t *boltTx) finish() {
	if !t.done {
		t.done = true
		t.db.OpenTxs--
		if t.writable {
			t.db.writers--
		}
	}
}

//verif:redirect (*go.etcd.io/bbolt.Tx).Commit BoltCommit
func BoltCommit(tx *bbolt.Tx) error {
	t := boltTxs[tx]
	if t.done {
		return errors.New("tx closed")
	}
	if !t.writable {
		return errors.New("tx not writable")
	}
	out := make([]kv, len(t.data))
	for i, e := range t.data {
		if e.nilVal {
			e = kv{k: e.k, v: []byte{}}
		}
		out[i] = e
	}
	t.db.data = out
	t.db.hasRoot = t.hasRoot
	t.finish()
	return nil
}

//verif:redirect (*go.etcd.io/bbolt.Tx).Rollback BoltRollback
func BoltRollback(tx *bbolt.Tx) error {
	t := boltTxs[tx]
	if t.done {
		return errors.New("tx closed")
	}
	t.finish()
	return nil
}

//verif:redirect (*go.etcd.io/bbolt.Tx).CreateBucketIfNotExists BoltCreateBucket
func BoltCreateBucket(tx *bbolt.Tx, name []byte) (*bbolt.Bucket, error) {
	t := boltTxs[tx]
	if !t.writable {
		return nil, errors.New("tx not writable")
	}
	t.hasRoot = true
	return BoltBucket(tx, name), nil
}

//verif:redirect (*go.etcd.io/bbolt.Tx).Bucket BoltBucket
func BoltBucket(tx *bbolt.Tx, name []byte) *bbolt.Bucket {
	t := boltTxs[tx]
	if !t.hasRoot {
		return nil
	}
	if t.bucket == nil {
		t.bucket = &bbolt.Bucket{}
		boltBuckets[t.bucket] = t
	}
	return t.bucket
}

//verif:redirect (*go.etcd.io/bbolt.Bucket).Put BoltPut
func BoltPut(b *bbolt.Bucket, key, value []byte) error {
	t := boltBuckets[b]
	if t.done {
		return errors.New("tx closed")
	}
	if !t.writable {
		return errors.New("tx not writable")
	}
	if len(key) == 0 {
		return errors.New("key required")
	}
	if i, found := find(t.data, key); !found {
		for _, c := range t.cursors {
			if i <= c.pos {
				c.pos++ // inserted behind (or at) the cursor: it keeps standing on the same key
			}
		}
	}
	t.data = put(t.data, kv{k: clone(key), v: value, nilVal: value == nil})
	return nil
}

//verif:redirect (*go.etcd.io/bbolt.Bucket).Get BoltGet
func BoltGet(b *bbolt.Bucket, key []byte) []byte {
	t := boltBuckets[b]
	i, found := find(t.data, key)
	if !found {
		return nil
	}
	return t.data[i].v
}

//verif:redirect (*go.etcd.io/bbolt.Bucket).Delete BoltDelete
func BoltDelete(b *bbolt.Bucket, key []byte) error {
	t := boltBuckets[b]
	if t.done {
		return errors.New("tx closed")
	}
	if !t.writable {
		return errors.New("tx not writable")
	}
	if i, found := find(t.data, key); found {
		for _, c := range t.cursors {
			if i < c.pos {
				c.pos--
			} else if i == c.pos {
				c.deleted = true
			}
		}
	}
	t.data = del(t.data, key)
	return nil
}

//verif:redirect (*go.etcd.io/bbolt.Bucket).Cursor BoltCursor
func BoltCursor(b *bbolt.Bucket) *bbolt.Cursor {
	c := &bbolt.Cursor{}
	cur := &boltCur{tx: boltBuckets[b], pos: -1}
	boltCursors[c] = cur
	cur.tx.cursors = append(cur.tx.cursors, cur)
	return c
}

func (c *boltCur) at() ([]byte, []byte) {
	d := c.tx.data
	if c.pos < 0 || c.pos >= len(d) {
		return nil, nil
	}
	return d[c.pos].k, d[c.pos].v
}

//verif:redirect (*go.etcd.io/bbolt.Cursor).Seek BoltSeek
func BoltSeek(c *bbolt.Cursor, seek []byte) ([]byte, []byte) {
	s := boltCursors[c]
	s.pos, _ = find(s.tx.data, seek)
	s.deleted = false
	return s.at()
}

//verif:redirect (*go.etcd.io/bbolt.Cursor).Next BoltNext
func BoltNext(c *bbolt.Cursor) ([]byte, []byte) {
	s := boltCursors[c]
	if s.deleted {
		s.deleted = false // the successor of the deleted key already sits at pos
	} else if s.pos < len(s.tx.data) {
		s.pos++
	}
	return s.at()
}

//verif:redirect (*go.etcd.io/bbolt.Cursor).Prev BoltPrev
func BoltPrev(c *bbolt.Cursor) ([]byte, []byte) {
	s := boltCursors[c]
	s.deleted = false
	if s.pos >= 0 {
		s.pos--
	}
	return s.at()
}

//verif:redirect (*go.etcd.io/bbolt.Cursor).First BoltFirst
func BoltFirst(c *bbolt.Cursor) ([]byte, []byte) {
	s := boltCursors[c]
	s.pos = 0
	return s.at()
}

//verif:redirect (*go.etcd.io/bbolt.Cursor).Last BoltLast
func BoltLast(c *bbolt.Cursor) ([]byte, []byte) {
	s := boltCursors[c]
	s.pos = len(s.tx.data) - 1
	return s.at()
}

// ---------------- badger ----------------

type bdgDB struct {
	data []kv
	Opts badger.Options
}

type bdgPending struct {
	key []byte // the caller's slice: "the transaction keeps a reference to the key and val byte slices;
	val []byte // users must not modify or reuse the slices until the end of the transaction" (badger docs)
	del bool
}

type bdgTxn struct {
	db      *bdgDB
	update  bool
	data    []kv // committed snapshot + own writes, as reads inside the transaction see them (keyed by a copy)
	pending []bdgPending
	done    bool
}

type bdgIter struct {
	txn     *bdgTxn
	snap    []kv
	reverse bool
	pos     int
	item    *badger.Item
	lastKey []byte // buffer handed out by the last Item().Key(): "only valid as long as item is valid" (badger docs)
}

var bdgDBs = map[*badger.DB]*bdgDB{}
var bdgTxns = map[*badger.Txn]*bdgTxn{}
var bdgIters = map[*badger.Iterator]*bdgIter{}
var bdgItems = map[*badger.Item]kv{}
var LastBadgerDB *bdgDB

//verif:redirect github.com/dgraph-io/badger/v4.DefaultOptions BadgerDefaultOptions
func BadgerDefaultOptions(path string) badger.Options {
	return badger.Options{Dir: path, ValueDir: path}
}

//verif:redirect github.com/dgraph-io/badger/v4.Open BadgerOpen
func BadgerOpen(opt badger.Options) (*badger.DB, error) {
	h := &badger.DB{}
	s := &bdgDB{Opts: opt}
	bdgDBs[h] = s
	LastBadgerDB = s
	return h, nil
}

//verif:redirect (*github.com/dgraph-io/badger/v4.DB).Close BadgerClose
func BadgerClose(db *badger.DB) error { return nil }

//verif:redirect (*github.com/dgraph-io/badger/v4.DB).NewTransaction BadgerNewTransaction
func BadgerNewTransaction(db *badger.DB, update bool) *badger.Txn {
	s := bdgDBs[db]
	h := &badger.Txn{}
	bdgTxns[h] = &bdgTxn{db: s, update: update, data: s.data}
	return h
}

//verif:redirect (*github.com/dgraph-io/badger/v4.Txn).Set BadgerSet
func BadgerSet(txn *badger.Txn, key, val []byte) error {
	t := bdgTxns[txn]
	if t.done {
		return badger.ErrDiscardedTxn
	}
	if !t.update {
		return badger.ErrReadOnlyTxn
	}
	if len(key) == 0 {
		return badger.ErrEmptyKey
	}
	t.data = put(t.data, kv{k: clone(key), v: clone(val)})
	t.pending = append(t.pending, bdgPending{key: key, val: val})
	return nil
}

//verif:redirect (*github.com/dgraph-io/badger/v4.Txn).Delete BadgerDelete
func BadgerDelete(txn *badger.Txn, key []byte) error {
	t := bdgTxns[txn]
	if t.done {
		return badger.ErrDiscardedTxn
	}
	if !t.update {
		return badger.ErrReadOnlyTxn
	}
	t.data = del(t.data, key)
	t.pending = append(t.pending, bdgPending{key: key, del: true})
	return nil
}

func newItem(e kv) *badger.Item {
	it := &badger.Item{}
	bdgItems[it] = e
	return it
}

//verif:redirect (*github.com/dgraph-io/badger/v4.Txn).Get BadgerGet
func BadgerGet(txn *badger.Txn, key []byte) (*badger.Item, error) {
	t := bdgTxns[txn]
	if t.done {
		return nil, badger.ErrDiscardedTxn
	}
	i, found := find(t.data, key)
	if !found {
		return nil, badger.ErrKeyNotFound
	}
	return newItem(t.data[i]), nil
}

//verif:redirect (*github.com/dgraph-io/badger/v4.Txn).Commit BadgerCommit
func BadgerCommit(txn *badger.Txn) error {
	t := bdgTxns[txn]
	if t.done {
		return badger.ErrDiscardedTxn
	}
	t.done = true
	if t.update {
		// the writes are applied with the key bytes the referenced slices hold NOW
		d := t.db.data
		for _, p := range t.pending {
			if p.del {
				d = del(d, p.key)
			} else {
				d = put(d, kv{k: clone(p.key), v: clone(p.val)})
			}
		}
		t.db.data = d
	}
	return nil
}

//verif:redirect (*github.com/dgraph-io/badger/v4.Txn).Discard BadgerDiscard
func BadgerDiscard(txn *badger.Txn) {
	bdgTxns[txn].done = true
}

//verif:redirect (*github.com/dgraph-io/badger/v4.Txn).NewIterator BadgerNewIterator
func BadgerNewIterator(txn *badger.Txn, opt badger.IteratorOptions) *badger.Iterator {
	t := bdgTxns[txn]
	h := &badger.Iterator{}
	bdgIters[h] = &bdgIter{txn: t, snap: t.data, reverse: opt.Reverse, pos: -1}
	return h
}

//verif:redirect (*github.com/dgraph-io/badger/v4.Iterator).Seek BadgerSeek
func BadgerSeek(it *badger.Iterator, key []byte) {
	s := bdgIters[it]
	i, found := find(s.snap, key)
	if s.reverse {
		if len(key) == 0 {
			i = len(s.snap) - 1 // an empty key seeks to the end in reverse mode
		} else if !found {
			i--
		}
	}
	s.pos = i
}

//verif:redirect (*github.com/dgraph-io/badger/v4.Iterator).Rewind BadgerRewind
func BadgerRewind(it *badger.Iterator) {
	s := bdgIters[it]
	if s.reverse {
		s.pos = len(s.snap) - 1
	} else {
		s.pos = 0
	}
}

//verif:redirect (*github.com/dgraph-io/badger/v4.Iterator).Next BadgerNext
func BadgerNext(it *badger.Iterator) {
	s := bdgIters[it]
	// the iterator reuses its item buffers once it advances: whoever kept the slice sees other bytes
	for i := range s.lastKey {
		s.lastKey[i] = 0xEE
	}
	s.lastKey = nil
	if s.reverse {
		s.pos--
	} else {
		s.pos++
	}
}

//verif:redirect (*github.com/dgraph-io/badger/v4.Iterator).Valid BadgerValid
func BadgerValid(it *badger.Iterator) bool {
	s := bdgIters[it]
	return s.pos >= 0 && s.pos < len(s.snap)
}

//verif:redirect (*github.com/dgraph-io/badger/v4.Iterator).Item BadgerItem
func BadgerItem(it *badger.Iterator) *badger.Item {
	s := bdgIters[it]
	e := s.snap[s.pos]
	if s.lastKey == nil {
		s.lastKey = clone(e.k)
	}
	return newItem(kv{k: s.lastKey, v: e.v})
}

//verif:redirect (*github.com/dgraph-io/badger/v4.Iterator).Close BadgerIterClose
func BadgerIterClose(it *badger.Iterator) {}

//verif:redirect (*github.com/dgraph-io/badger/v4.Item).Key BadgerItemKey
func BadgerItemKey(item *badger.Item) []byte { return bdgItems[item].k }

//verif:redirect (*github.com/dgraph-io/badger/v4.Item).Value BadgerItemValue
func BadgerItemValue(item *badger.Item, fn func(val []byte) error) error {
	v := bdgItems[item].v
	if len(v) == 0 {
		v = nil // badger hands an empty value to the callback as a nil/empty slice
	}
	return fn(v)
}

//verif:redirect (*github.com/dgraph-io/badger/v4.Item).KeyCopy BadgerItemKeyCopy
func BadgerItemKeyCopy(item *badger.Item, dst []byte) []byte {
	return append(dst[:0], bdgItems[item].k...)
}
