// Package nd, native mode: values come from the replay file named by $VERIF_REPLAY.
package nd

import (
	"encoding/json"
	"fmt"
	"math"
	"os"
	"strconv"
	"testing"
	"time"
)

type replay struct {
	Choices map[string]int    `json:"choices"`
	Values  map[string]string `json:"values"`
}

var (
	cur     replay
	counts  = map[string]int{}
	failed  []string
	assumed = true
)

type assumeFailed_ struct{}

func LoadReplay() {
	b, err := os.ReadFile(os.Getenv("VERIF_REPLAY"))
	if err != nil {
		panic(err)
	}
	if err := json.Unmarshal(b, &cur); err != nil {
		panic(err)
	}
	counts = map[string]int{}
	failed = nil
}

// SetReplay installs an assignment directly (used by differential tests).
func SetReplay(choices map[string]int, values map[string]string) {
	cur = replay{Choices: choices, Values: values}
	counts = map[string]int{}
	failed = nil
}

func Failed() []string { return failed }

func Finish(t *testing.T) {
	if r := recover(); r != nil {
		if _, ok := r.(assumeFailed_); ok {
			fmt.Println("VERIF-ASSUME-FAILED")
			return
		}
		fmt.Printf("VERIF-PANIC %v\n", r)
		panic(r)
	}
	if len(failed) > 0 {
		t.Fail()
	}
}

func uname(name string) string {
	k := counts[name]
	counts[name] = k + 1
	if k == 0 {
		return name
	}
	return fmt.Sprintf("%s#%d", name, k)
}

func val(name string) uint64 {
	s, ok := cur.Values[uname(name)]
	if !ok {
		return 0
	}
	v, err := strconv.ParseUint(s, 0, 64)
	if err != nil {
		panic(err)
	}
	return v
}

func Bool(name string) bool          { return val(name) != 0 }
func Int64(name string) int64        { return int64(val(name)) }
func Uint64(name string) uint64      { return val(name) }
func Int(name string) int            { return int(int64(val(name))) }
func Uint(name string) uint          { return uint(val(name)) }
func Int32(name string) int32        { return int32(uint32(val(name))) }
func Uint32(name string) uint32      { return uint32(val(name)) }
func Int16(name string) int16        { return int16(uint16(val(name))) }
func Uint16(name string) uint16      { return uint16(val(name)) }
func Int8(name string) int8          { return int8(uint8(val(name))) }
func Uint8(name string) uint8        { return uint8(val(name)) }
func Byte(name string) byte          { return byte(val(name)) }
func Float64(name string) float64    { return math.Float64frombits(val(name)) }
func Float32(name string) float32    { return math.Float32frombits(uint32(val(name))) }
func TimeNanos(name string) time.Time {
	return time.Unix(0, int64(val(name))).In(time.FixedZone("VERIF", 2*3600+17*60))
}

func Choice(name string, n int) int {
	v := cur.Choices[uname(name)]
	if v < 0 || v >= n {
		return 0
	}
	return v
}

func Assume(c bool) {
	if !c {
		panic(assumeFailed_{})
	}
}

func Assert(label string, c bool) {
	if !c {
		failed = append(failed, label)
		fmt.Println("VERIF-ASSERT-FAIL " + label)
	}
}

func Reach(label string) {}
func Note(s string)      {}
func Symbolic() bool     { return false }

func FreezeDeep(root interface{}, what string)    {}
func FreezeShallow(root interface{}, what string) {}
func FreezeGlobals()                              {}
func FrozenWrites() int                           { return 0 }
func FrozenWriteNote() string                     { return "" }

// RunCase replays one recorded assignment against fn and reports assertion failures / panics
// (used for engine-vs-native differential validation of sampled paths).
func RunCase(file string, fn func()) (failedLabels []string, panicked string, assumeFailed bool) {
	b, err := os.ReadFile(file)
	if err != nil {
		return nil, err.Error(), false
	}
	cur = replay{}
	if err := json.Unmarshal(b, &cur); err != nil {
		return nil, err.Error(), false
	}
	counts = map[string]int{}
	failed = nil
	func() {
		defer func() {
			if r := recover(); r != nil {
				if _, ok := r.(assumeFailed_); ok {
					assumeFailed = true
					return
				}
				panicked = fmt.Sprint(r)
			}
		}()
		fn()
	}()
	return failed, panicked, assumeFailed
}
