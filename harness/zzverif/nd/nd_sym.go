// Package nd is the harness vocabulary. In engine mode these functions have no
// bodies: the symbolic executor intercepts them. In native (replay) mode the
// bodies in nd_native.go read a recorded assignment.
package nd

import "time"

func Bool(name string) bool
func Int64(name string) int64
func Uint64(name string) uint64
func Int(name string) int
func Uint(name string) uint
func Int32(name string) int32
func Uint32(name string) uint32
func Int16(name string) int16
func Uint16(name string) uint16
func Int8(name string) int8
func Uint8(name string) uint8
func Byte(name string) byte
func Float64(name string) float64
func Float32(name string) float32
func TimeNanos(name string) time.Time
func Choice(name string, n int) int
func Assume(c bool)
func Assert(label string, c bool)
func Reach(label string)
func Note(s string)
func Symbolic() bool

// Shared-memory write monitor: cells reachable from the frozen roots must not be the target of a plain store.
func FreezeDeep(root interface{}, what string)
func FreezeShallow(root interface{}, what string)
func FreezeGlobals()
func FrozenWrites() int
func FrozenWriteNote() string
