package clover

import (
	d "github.com/ostafen/clover/v2/document"
	"github.com/ostafen/clover/v2/query"
	"github.com/ostafen/clover/v2/zzverif/nd"
)

//verif:harness props=C07,C09 tier=quick bounds="one shared *Query (criteria, sort, skip, limit) and one DB handle used by each read and bulk-write operation (FindAll, Count, Exists, FindFirst, ForEach, Update, UpdateFunc, Delete, FindById, HasCollection, ListCollections, ListIndexes) on a 2-document indexed collection: no plain (non-atomic, unlocked) write hits the DB handle, clover's package-level variables, or anything reachable from the query - the memory that concurrent callers share"
func H_C07_no_shared_writes() {
	e := openEnv()
	buildState(e, stateCfg{nDocs: 2, idxField: []string{"x"}, fields: func(i int) map[string]interface{} {
		return []map[string]interface{}{{"x": -1.5, "y": 1.0}, {"x": 2.5, "y": 2.0}}[i]
	}})
	q := query.NewQuery("c").Where(query.Field("x").Gt(nd.Float64("lit")).And(query.Field("y").In(1, 2.0))).Sort(query.SortOption{Field: "x", Direction: nd.Int("dir")}).Skip(0).Limit(5)
	nd.FreezeDeep(q, "shared query")
	nd.FreezeShallow(e.db, "DB handle")
	nd.FreezeGlobals()
	var err error
	switch nd.Choice("op", 12) {
	case 0:
		_, err = e.db.FindAll(q)
	case 1:
		_, err = e.db.Count(q)
	case 2:
		_, err = e.db.Exists(q)
	case 3:
		_, err = e.db.FindFirst(q)
	case 4:
		err = e.db.ForEach(q, func(*d.Document) bool { return true })
	case 5:
		err = e.db.Update(q, map[string]interface{}{"z": 1})
	case 6:
		err = e.db.UpdateFunc(q, func(doc *d.Document) *d.Document { n := doc.Copy(); n.Set("z", 2); return n })
	case 7:
		err = e.db.Delete(q)
	case 8:
		_, err = e.db.FindById("c", poolIds[0])
	case 9:
		_, err = e.db.HasCollection("c")
	case 10:
		_, err = e.db.ListCollections()
	case 11:
		_, err = e.db.ListIndexes("c")
	}
	nd.Assert("C07.op.ok", err == nil)
	nd.Assert("C07.no-plain-write.shared-memory", nd.FrozenWrites() == 0)
	nd.Reach("end")
}
