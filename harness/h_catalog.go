package clover

import (
	"errors"

	d "github.com/ostafen/clover/v2/document"
	"github.com/ostafen/clover/v2/query"
	"github.com/ostafen/clover/v2/zzverif/memstore"
	"github.com/ostafen/clover/v2/zzverif/nd"
	"github.com/ostafen/clover/v2/zzverif/ref"
)

// symName: a collection name of 1..2 symbolic bytes, free of the reserved ';'.
func symName(name string) string {
	n := 1 + nd.Choice(name+".len", 2)
	b := make([]byte, n)
	for i := range b {
		b[i] = nd.Byte(name + ".b")
		nd.Assume(b[i] != ';')
	}
	return string(b)
}

func keysOf(ms *memstore.Store, coll string) []memstore.KV {
	var out []memstore.KV
	out = append(out, rawKeys(ms, "coll:"+coll)...)
	out = append(out, rawKeys(ms, "c:"+coll+";")...)
	return out
}

func sameKVs(a, b []memstore.KV) bool {
	if len(a) != len(b) {
		return false
	}
	for i := range a {
		if string(a[i].K) != string(b[i].K) || !sameBlob(a[i].V, b[i].V) {
			return false
		}
	}
	return true
}

//verif:harness props=C13,C06,C20 tier=quick bounds="two collections whose names are symbolic strings of 1-2 bytes (any byte but ';', distinct; prefix-related pairs arise from the solver), each with one document under the same id and an index on x; one operation on the first (Insert, Update, Delete, DeleteById, CreateIndex, DropIndex, DropCollection + re-create): catalog exact, the second collection's raw keys, documents and query results untouched"
func H_C13_isolation() {
	e := openEnv()
	n1, n2 := symName("n1"), symName("n2")
	nd.Assume(n1 != n2)
	for _, n := range []string{n1, n2} {
		nd.Assert("setup.create", e.db.CreateCollection(n) == nil)
		nd.Assert("setup.insert", e.db.Insert(n, mkDoc(map[string]interface{}{"_id": poolIds[0], "x": 1.0})) == nil)
		nd.Assert("setup.index", e.db.CreateIndex(n, "x") == nil)
	}
	// exact prefix-free catalog
	names, err := e.db.ListCollections()
	nd.Assert("C13.list", err == nil && len(names) == 2 && ((names[0] == n1 && names[1] == n2) || (names[0] == n2 && names[1] == n1)))
	nd.Assert("C13.create-existing", errors.Is(e.db.CreateCollection(n1), ErrCollectionExist))
	pre2 := append([]memstore.KV{}, keysOfExact(e.ms, n2)...)
	dropped := false
	switch nd.Choice("op", 7) {
	case 0:
		nd.Assert("C13.op.insert", e.db.Insert(n1, mkDoc(map[string]interface{}{"_id": poolIds[1], "x": 2.0})) == nil)
	case 1:
		nd.Assert("C13.op.update", e.db.Update(query.NewQuery(n1), map[string]interface{}{"x": 5.0}) == nil)
	case 2:
		nd.Assert("C13.op.delete", e.db.Delete(query.NewQuery(n1)) == nil)
	case 3:
		nd.Assert("C13.op.deletebyid", e.db.DeleteById(n1, poolIds[0]) == nil)
	case 4:
		nd.Assert("C13.op.createindex", e.db.CreateIndex(n1, "y") == nil)
	case 5:
		nd.Assert("C13.op.dropindex", e.db.DropIndex(n1, "x") == nil)
	case 6:
		nd.Assert("C13.op.drop", e.db.DropCollection(n1) == nil)
		dropped = true
	}
	nd.Assert("C13.other-collection-raw-keys-untouched", sameKVs(keysOfExact(e.ms, n2), pre2))
	docs, err := e.db.FindAll(query.NewQuery(n2).Where(query.Field("x").Eq(1.0)))
	nd.Assert("C13.other-collection-query", err == nil && len(docs) == 1 && docs[0].ObjectId() == poolIds[0])
	cnt, err := e.db.Count(query.NewQuery(n2))
	nd.Assert("C13.other-collection-count", err == nil && cnt == 1)
	has1, err1 := e.db.HasCollection(n1)
	has2, err2 := e.db.HasCollection(n2)
	nd.Assert("C13.hascollection", err1 == nil && err2 == nil && has1 == !dropped && has2)
	if dropped {
		// nothing of n1 is left; re-creating gives an empty collection
		nd.Assert("C06.drop-no-residue", len(keysOfExact(e.ms, n1)) == 0)
		nd.Assert("C06.recreate", e.db.CreateCollection(n1) == nil)
		docs, err := e.db.FindAll(query.NewQuery(n1))
		has, herr := e.db.HasIndex(n1, "x")
		nd.Assert("C06.recreate-empty", err == nil && len(docs) == 0 && herr == nil && !has)
		_, ferr := e.db.FindAll(query.NewQuery(n1).Where(query.Field("x").Gt(0.0)))
		nd.Assert("C13.recreated-usable", ferr == nil)
	}
	nd.Reach("end")
}

// keysOfExact: the metadata key of exactly this collection plus its "c:<name>;" key space.
func keysOfExact(ms *memstore.Store, coll string) []memstore.KV {
	refresh(ms)
	var out []memstore.KV
	for _, kv := range ms.Data {
		if string(kv.K) == "coll:"+coll {
			out = append(out, kv)
		}
	}
	out = append(out, rawKeys(ms, "c:"+coll+";")...)
	return out
}

// ---------------- missing objects, closed handle ----------------

func isNotExist(err error) bool { return errors.Is(err, ErrCollectionNotExist) }

//verif:harness props=C13,C14,C20,C04 tier=quick bounds="every public operation addressed to a collection that does not exist (the database holds another collection): returns ErrCollectionNotExist, does not panic, leaves the store unchanged"
func H_C20_missing_collection() {
	e := openEnv()
	buildState(e, stateCfg{nDocs: 1, idxField: []string{"x"}, fields: func(i int) map[string]interface{} { return map[string]interface{}{"x": 1.0} }})
	pre := snapshot(e.ms)
	q := query.NewQuery("nope").Where(query.Field("x").Gt(0.0))
	switch nd.Choice("query.shape", 4) {
	case 1:
		q = q.Limit(0)
	case 2:
		q = query.NewQuery("nope").Skip(1).Limit(0)
	case 3:
		q = q.Sort(query.SortOption{Field: "x", Direction: -1}).Skip(2)
	}
	var err error
	switch nd.Choice("op", 18) {
	case 0:
		err = e.db.Insert("nope", mkDoc(map[string]interface{}{"x": 1.0}))
	case 1:
		_, err = e.db.InsertOne("nope", mkDoc(map[string]interface{}{"x": 1.0}))
	case 2:
		err = e.db.Save("nope", mkDoc(map[string]interface{}{"x": 1.0}))
	case 3:
		err = e.db.Update(q, map[string]interface{}{"x": 2.0})
	case 4:
		err = e.db.UpdateById("nope", poolIds[0], func(doc *d.Document) *d.Document { return doc })
	case 5:
		err = e.db.ReplaceById("nope", poolIds[0], mkDoc(map[string]interface{}{"_id": poolIds[0]}))
	case 6:
		err = e.db.Delete(q)
	case 7:
		err = e.db.DeleteById("nope", poolIds[0])
	case 8:
		err = e.db.DropCollection("nope")
	case 9:
		err = e.db.CreateIndex("nope", "x")
	case 10:
		err = e.db.DropIndex("nope", "x")
	case 11:
		_, err = e.db.HasIndex("nope", "x")
	case 12:
		_, err = e.db.ListIndexes("nope")
	case 13:
		_, err = e.db.FindAll(q)
	case 14:
		_, err = e.db.Count(query.NewQuery("nope").Limit(q.GetLimit()))
	case 15:
		_, err = e.db.FindFirst(q.Sort())
	case 16:
		_, err = e.db.FindById("nope", poolIds[0])
	case 17:
		err = e.db.ForEach(q, func(*d.Document) bool { return true })
	}
	nd.Assert("C13.missing-collection.error", isNotExist(err))
	nd.Assert("C13.missing-collection.unchanged", unchanged(e.ms, pre))
	quiescent("C20.missing", e.ms)
	nd.Reach("end")
}

//verif:harness props=C20 tier=quick bounds="every public operation after Close on the reference store (Begin fails once closed): returns, never panics; Close twice is fine"
func H_C20_after_close() {
	e := openEnv()
	buildState(e, stateCfg{nDocs: 1, idxField: []string{"x"}, fields: func(i int) map[string]interface{} { return map[string]interface{}{"x": 1.0} }})
	nd.Assert("C20.close", e.db.Close() == nil && e.db.Close() == nil)
	q := query.NewQuery("c").Where(query.Field("x").Gt(0.0))
	var err error
	switch nd.Choice("op", 16) {
	case 0:
		err = e.db.Insert("c", mkDoc(map[string]interface{}{"x": 1.0}))
	case 1:
		err = e.db.Save("c", mkDoc(map[string]interface{}{"x": 1.0}))
	case 2:
		err = e.db.Update(q, map[string]interface{}{"x": 2.0})
	case 3:
		err = e.db.UpdateById("c", poolIds[0], func(doc *d.Document) *d.Document { return doc })
	case 4:
		err = e.db.Delete(q)
	case 5:
		err = e.db.DeleteById("c", poolIds[0])
	case 6:
		err = e.db.DropCollection("c")
	case 7:
		err = e.db.CreateIndex("c", "y")
	case 8:
		err = e.db.DropIndex("c", "x")
	case 9:
		_, err = e.db.HasIndex("c", "x")
	case 10:
		_, err = e.db.ListIndexes("c")
	case 11:
		_, err = e.db.FindAll(q)
	case 12:
		_, err = e.db.Count(query.NewQuery("c"))
	case 13:
		_, err = e.db.FindById("c", poolIds[0])
	case 14:
		_, err = e.db.ListCollections()
	case 15:
		err = e.db.CreateCollection("z")
	}
	nd.Assert("C20.after-close.returns-error", err != nil)
	nd.Reach("end")
}

var _ = ref.Compare

//verif:harness props=C20,C15 tier=quick bounds="Close twice (and an operation after Close) on a DB opened over each real store adapter (bbolt, badger with its background-GC shutdown channel): returns, never panics"
func H_C20_close_twice_adapters() {
	backend := nd.Choice("backend", 2)
	db, err := OpenWithStore(openAdapter(backend))
	nd.Assert("C20.open", err == nil)
	nd.Assert("C20.create", db.CreateCollection("c") == nil)
	nd.Assert("C20.close-first", db.Close() == nil)
	nd.Assert("C20.close-second", db.Close() == nil)
	nd.Reach("end")
}
