package clover

import (
	"bytes"
	"encoding/json"
	"strings"

	d "github.com/ostafen/clover/v2/document"
	"github.com/ostafen/clover/v2/index"
	"github.com/ostafen/clover/v2/query"
	"github.com/ostafen/clover/v2/store"
	"github.com/ostafen/clover/v2/zzverif/memstore"
	"github.com/ostafen/clover/v2/zzverif/nd"
	"github.com/ostafen/clover/v2/zzverif/ref"
)

var poolIds = []string{
	"00000000-0000-4000-8000-000000000001",
	"00000000-0000-4000-8000-000000000002",
	"00000000-0000-4000-8000-000000000003",
	"00000000-0000-4000-8000-000000000004",
}

// ---------- abstract database ----------

type absDoc struct {
	id     string
	fields map[string]interface{} // includes "_id"
}

type absColl struct {
	name    string
	docs    []*absDoc
	indexes []string
}

type absDB struct {
	colls []*absColl
}

func (a *absDB) coll(name string) *absColl {
	for _, c := range a.colls {
		if c.name == name {
			return c
		}
	}
	return nil
}

func (c *absColl) doc(id string) *absDoc {
	for _, x := range c.docs {
		if x.id == id {
			return x
		}
	}
	return nil
}

func (c *absColl) hasIndex(f string) bool {
	for _, x := range c.indexes {
		if x == f {
			return true
		}
	}
	return false
}

func cloneFields(m map[string]interface{}) map[string]interface{} {
	out := map[string]interface{}{}
	for k, v := range m {
		switch x := v.(type) {
		case map[string]interface{}:
			out[k] = cloneFields(x)
		case []interface{}:
			out[k] = append([]interface{}{}, x...)
		default:
			out[k] = v
		}
	}
	return out
}

func (a *absDB) clone() *absDB {
	b := &absDB{}
	for _, c := range a.colls {
		nc := &absColl{name: c.name, indexes: append([]string{}, c.indexes...)}
		for _, x := range c.docs {
			nc.docs = append(nc.docs, &absDoc{id: x.id, fields: cloneFields(x.fields)})
		}
		b.colls = append(b.colls, nc)
	}
	return b
}

func mkDoc(fields map[string]interface{}) *d.Document {
	doc := d.NewDocument()
	for k, v := range fields {
		doc.Set(k, v)
	}
	return doc
}

// matching returns the abstract documents of c that satisfy crit (nil = all).
func (c *absColl) matching(crit *ref.Crit) []*absDoc {
	var out []*absDoc
	for _, x := range c.docs {
		if crit == nil || ref.Satisfy(crit, x.fields) {
			out = append(out, x)
		}
	}
	return out
}

// sameDocSet: got holds exactly the documents of want, each once, with the values last written.
func sameDocSet(got []*d.Document, want []*absDoc) bool {
	if len(got) != len(want) {
		return false
	}
	used := make([]bool, len(got))
	for _, w := range want {
		found := false
		for i, g := range got {
			if !used[i] && g.ObjectId() == w.id {
				if !ref.DeepEqual(g.ToMap(), w.fields) {
					return false
				}
				used[i] = true
				found = true
				break
			}
		}
		if !found {
			return false
		}
	}
	return true
}

func idsOf(docs []*d.Document) []string {
	out := make([]string, len(docs))
	for i, x := range docs {
		out[i] = x.ObjectId()
	}
	return out
}

// ---------- criteria builder (public API only) ----------

func buildCrit(c *ref.Crit) query.Criteria {
	switch c.Op {
	case ref.OpAnd:
		return buildCrit(c.A).And(buildCrit(c.B))
	case ref.OpOr:
		return buildCrit(c.A).Or(buildCrit(c.B))
	case ref.OpNot:
		return buildCrit(c.A).Not()
	case ref.OpFunc:
		res := c.FuncRes
		return query.NewQuery("c").MatchFunc(func(_ *d.Document) bool { return res }).Criteria()
	}
	f := query.Field(c.Field)
	switch c.Op {
	case ref.OpExists:
		return f.Exists()
	case ref.OpNotExists:
		return f.NotExists()
	case ref.OpEq:
		return f.Eq(critLit(c.Val))
	case ref.OpNeq:
		return f.Neq(critLit(c.Val))
	case ref.OpGt:
		return f.Gt(critLit(c.Val))
	case ref.OpGtEq:
		return f.GtEq(critLit(c.Val))
	case ref.OpLt:
		return f.Lt(critLit(c.Val))
	case ref.OpLtEq:
		return f.LtEq(critLit(c.Val))
	case ref.OpLike:
		return f.Like(c.Pattern)
	case ref.OpIn:
		return f.In(critLits(c.Vals)...)
	case ref.OpContains:
		return f.Contains(critLits(c.Vals)...)
	}
	panic("bad op")
}

func critLit(v interface{}) interface{} {
	if fr, ok := v.(ref.FieldRef); ok {
		if fr.Dollar {
			return "$" + fr.Name
		}
		return query.Field(fr.Name)
	}
	return v
}

func critLits(vs []interface{}) []interface{} {
	out := make([]interface{}, len(vs))
	for i, v := range vs {
		out[i] = critLit(v)
	}
	return out
}

// ---------- raw store inspection (representation invariant) ----------

// refreshers: for a DB opened over a real store adapter the "reference store" handle is only a view of the
// adapter's committed content, re-read through the store.Store interface before every inspection.
var refreshers = map[*memstore.Store]func(){}

func refresh(ms *memstore.Store) {
	if f := refreshers[ms]; f != nil {
		f()
	}
}

// dumpStore reads every committed key/value through the public store interface.
func dumpStore(st store.Store) []memstore.KV {
	var out []memstore.KV
	tx, err := st.Begin(false)
	if err != nil {
		return nil
	}
	defer tx.Rollback()
	cur, err := tx.Cursor(true)
	if err != nil {
		return nil
	}
	defer cur.Close()
	cur.Seek([]byte{})
	for ; cur.Valid(); cur.Next() {
		it, err := cur.Item()
		if err != nil {
			break
		}
		out = append(out, memstore.KV{K: append([]byte{}, it.Key...), V: append([]byte{}, it.Value...)}) // an item is only valid until the cursor advances
	}
	return out
}

// envBackend selects the store of openEnv: 0 = reference store, 1 = real bbolt adapter, 2 = real badger
// adapter (both over their library contract stubs under the engine, over the real libraries natively).
var envBackend = 0

func openEnv() *env {
	if envBackend == 0 {
		return openMemEnv()
	}
	st := openAdapter(envBackend - 1)
	db, _ := OpenWithStore(st)
	view := memstore.New()
	refreshers[view] = func() { view.Data = dumpStore(st) }
	return &env{db: db, ms: view}
}

func rawKeys(ms *memstore.Store, prefix string) []memstore.KV {
	refresh(ms)
	var out []memstore.KV
	for _, kv := range ms.Data {
		if bytes.HasPrefix(kv.K, []byte(prefix)) {
			out = append(out, kv)
		}
	}
	return out
}

// keyRecorder computes the key the index API writes for (field value, id).
type keyRecorder struct{ keys [][]byte }

func (t *keyRecorder) Set(key, value []byte) error {
	t.keys = append(t.keys, append([]byte(nil), key...))
	return nil
}
func (t *keyRecorder) Get(key []byte) ([]byte, error)            { return nil, nil }
func (t *keyRecorder) Delete(key []byte) error                   { return nil }
func (t *keyRecorder) Cursor(forward bool) (store.Cursor, error) { return nil, nil }
func (t *keyRecorder) Commit() error                             { return nil }
func (t *keyRecorder) Rollback() error                           { return nil }

func expectedIndexKey(coll, field, id string, v interface{}) []byte {
	rec := &keyRecorder{}
	index.CreateIndex(coll, field, index.SingleField, rec).Add(id, v, -1)
	return rec.keys[0]
}

func hasKey(kvs []memstore.KV, k []byte) bool {
	for _, kv := range kvs {
		if bytes.Equal(kv.K, k) {
			return true
		}
	}
	return false
}

// audit asserts that the committed key space is exactly what the abstract state dictates.
func audit(label string, ms *memstore.Store, a *absDB) {
	refresh(ms)
	// catalog
	metas := rawKeys(ms, "coll:")
	nd.Assert(label+".audit.catalog-size", len(metas) == len(a.colls))
	total := len(metas)
	for _, c := range a.colls {
		var meta *collectionMetadata
		for _, kv := range metas {
			if string(kv.K) == "coll:"+c.name {
				m := &collectionMetadata{}
				if json.Unmarshal(kv.V, m) == nil {
					meta = m
				}
			}
		}
		nd.Assert(label+".audit.meta-present", meta != nil)
		if meta == nil {
			continue
		}
		nd.Assert(label+".audit.size", meta.Size == len(c.docs))
		nd.Assert(label+".audit.index-catalog", len(meta.Indexes) == len(c.indexes))
		for _, f := range c.indexes {
			found := false
			for _, in := range meta.Indexes {
				if in.Field == f {
					found = true
				}
			}
			nd.Assert(label+".audit.index-listed", found)
		}
		// documents
		dkeys := rawKeys(ms, "c:"+c.name+";d:")
		nd.Assert(label+".audit.doc-count", len(dkeys) == len(c.docs))
		total += len(dkeys)
		for _, x := range c.docs {
			ok := false
			for _, kv := range dkeys {
				if string(kv.K) == "c:"+c.name+";d:"+x.id {
					doc, err := d.Decode(kv.V)
					ok = err == nil && ref.DeepEqual(doc.ToMap(), x.fields)
				}
			}
			nd.Assert(label+".audit.doc-record", ok)
		}
		// index entries: exactly one per (index, document), under the current value
		ikeys := rawKeys(ms, "c:"+c.name+";i:")
		nd.Assert(label+".audit.index-entry-count", len(ikeys) == len(c.indexes)*len(c.docs))
		total += len(ikeys)
		for _, f := range c.indexes {
			for _, x := range c.docs {
				v, _ := ref.Lookup(x.fields, f)
				nd.Assert(label+".audit.index-entry", hasKey(ikeys, expectedIndexKey(c.name, f, x.id, v)))
			}
		}
	}
	nd.Assert(label+".audit.no-residue", total == len(ms.Data))
}

// ---------- canonical state construction ----------

type stateCfg struct {
	nDocs    int
	fields   func(i int) map[string]interface{} // field values of document i (without _id)
	idxField []string                           // indexes to create on "c"
	sibling  bool                               // also a second collection "cx" sharing ids
}

// buildState creates collection "c" through the public API. The indexes are
// created before or after the documents are written (case split).
func buildState(e *env, cfg stateCfg) *absDB {
	a := &absDB{}
	nd.Assert("setup.create", e.db.CreateCollection("c") == nil)
	c := &absColl{name: "c"}
	a.colls = append(a.colls, c)
	before := true
	if len(cfg.idxField) > 0 {
		before = nd.Choice("index.before-data", 2) == 1
	}
	if before {
		for _, f := range cfg.idxField {
			nd.Assert("setup.index", e.db.CreateIndex("c", f) == nil)
			c.indexes = append(c.indexes, f)
		}
	}
	for i := 0; i < cfg.nDocs; i++ {
		fs := cfg.fields(i)
		fs["_id"] = poolIds[i]
		nd.Assert("setup.insert", e.db.Insert("c", mkDoc(fs)) == nil)
		c.docs = append(c.docs, &absDoc{id: poolIds[i], fields: fs})
	}
	if !before {
		for _, f := range cfg.idxField {
			nd.Assert("setup.index", e.db.CreateIndex("c", f) == nil)
			c.indexes = append(c.indexes, f)
		}
	}
	if cfg.sibling {
		nd.Assert("setup.create2", e.db.CreateCollection("cx") == nil)
		s := &absColl{name: "cx"}
		fs := map[string]interface{}{"_id": poolIds[0], "x": "other"}
		nd.Assert("setup.insert2", e.db.Insert("cx", mkDoc(fs)) == nil)
		nd.Assert("setup.index2", e.db.CreateIndex("cx", "x") == nil)
		s.docs = append(s.docs, &absDoc{id: poolIds[0], fields: fs})
		s.indexes = []string{"x"}
		a.colls = append(a.colls, s)
	}
	return a
}

var _ = strings.Split
