package clover

import (
	"errors"

	"github.com/ostafen/clover/v2/query"
	"github.com/ostafen/clover/v2/zzverif/nd"
	"github.com/ostafen/clover/v2/zzverif/ref"
)

func c19State(e *env) *absDB {
	cfg := stateCfg{nDocs: 2, sibling: true, fields: func(i int) map[string]interface{} {
		return []map[string]interface{}{
			{"x": nd.Float64("x0"), "s": "a", "n": map[string]interface{}{"a": true, "l": []interface{}{1.5, nil}}},
			{"s": ref.String("s1", 1)},
		}[i]
	}}
	if nd.Choice("index", 2) == 1 {
		cfg.idxField = []string{"x"}
	}
	return buildState(e, cfg)
}

//verif:harness props=C19,C09 tier=quick bounds="collection of 2 JSON-representable documents (symbolic float64, string<=1, nested object/array/bool/nil), with or without an index: Export leaves the store unchanged; Import of the exported file under a new name reproduces count, ids and field trees; the JSON codec and the file system are identity stubs (JSON typing is outside the claim)"
func H_C19_roundtrip() {
	e := openEnv()
	a := c19State(e)
	pre := snapshot(e.ms)
	path := tmpPath("export.json")
	nd.Assert("C19.export-ok", e.db.ExportCollection("c", path) == nil)
	nd.Assert("C19.export-leaves-store-unchanged", unchanged(e.ms, pre))
	nd.Assert("C19.import-ok", e.db.ImportCollection("imp", path) == nil)
	docs, err := e.db.FindAll(query.NewQuery("imp"))
	nd.Assert("C19.import-reproduces", err == nil && sameDocSet(docs, a.coll("c").docs))
	n, err := e.db.Count(query.NewQuery("imp"))
	nd.Assert("C19.import-count", err == nil && n == 2)
	src, err := e.db.FindAll(query.NewQuery("c"))
	nd.Assert("C19.source-intact", err == nil && sameDocSet(src, a.coll("c").docs))
	quiescent("C19", e.ms)
	nd.Reach("end")
}

//verif:harness props=C19,C04,C13 tier=quick bounds="failing imports and exports: import under an existing name, from a missing/unreadable file, from an ill-formed file; export of a missing collection: an error is returned and no existing collection is altered (C19); the committed store is exactly as before (C04)"
func H_C19_failures() {
	e := openEnv()
	c19State(e)
	path := tmpPath("export.json")
	nd.Assert("C19.export-ok", e.db.ExportCollection("c", path) == nil)
	pre := snapshot(e.ms)
	preC := append(keysOfExact(e.ms, "c"), keysOfExact(e.ms, "cx")...)
	var err error
	kind := nd.Choice("failure", 4)
	switch kind {
	case 0:
		err = e.db.ImportCollection("cx", path)
		nd.Assert("C19.import-existing-name", errors.Is(err, ErrCollectionExist))
	case 1:
		setUnreadable(path)
		err = e.db.ImportCollection("imp", path)
		nd.Assert("C19.import-unreadable", err != nil)
	case 2:
		writeRawFile(path, false)
		err = e.db.ImportCollection("imp", path)
		nd.Assert("C19.import-ill-formed", err != nil)
	case 3:
		err = e.db.ExportCollection("nope", path)
		nd.Assert("C19.export-missing", errors.Is(err, ErrCollectionNotExist))
	}
	nd.Assert("C19.failure.existing-collections-unaltered", sameKVs(append(keysOfExact(e.ms, "c"), keysOfExact(e.ms, "cx")...), preC))
	nd.Assert("C04.import-failure.unchanged", unchanged(e.ms, pre))
	quiescent("C04.import-failure", e.ms)
	nd.Reach("end")
}

//verif:harness props=C04,C13,C01 tier=quick bounds="CreateCollectionByQuery: success copies exactly FindAll(q); failure (target exists, source missing) returns the sentinel error and leaves the store unchanged"
func H_C04_create_by_query() {
	e := openEnv()
	a := c19State(e)
	pre := snapshot(e.ms)
	switch nd.Choice("case", 3) {
	case 0:
		crit := &ref.Crit{Op: ref.OpExists, Field: "x"}
		err := e.db.CreateCollectionByQuery("copy", query.NewQuery("c").Where(buildCrit(crit)))
		docs, ferr := e.db.FindAll(query.NewQuery("copy"))
		nd.Assert("C01.create-by-query", err == nil && ferr == nil && sameDocSet(docs, a.coll("c").matching(crit)))
	case 1:
		err := e.db.CreateCollectionByQuery("cx", query.NewQuery("c"))
		nd.Assert("C13.create-by-query-existing", errors.Is(err, ErrCollectionExist))
		nd.Assert("C04.create-by-query-existing.unchanged", unchanged(e.ms, pre))
	case 2:
		err := e.db.CreateCollectionByQuery("copy", query.NewQuery("nope"))
		nd.Assert("C13.create-by-query-missing-source", errors.Is(err, ErrCollectionNotExist))
		nd.Assert("C04.create-by-query-missing-source.unchanged", unchanged(e.ms, pre))
	}
	quiescent("C04.create-by-query", e.ms)
	nd.Reach("end")
}
