package clover

import (
	"github.com/ostafen/clover/v2/index"
	"github.com/ostafen/clover/v2/query"
	"github.com/ostafen/clover/v2/zzverif/nd"
	"github.com/ostafen/clover/v2/zzverif/ref"
)

var planLeafOps = []int{ref.OpEq, ref.OpNeq, ref.OpGt, ref.OpGtEq, ref.OpLt, ref.OpLtEq, ref.OpExists, ref.OpNotExists, ref.OpIn, ref.OpLike, ref.OpContains}

func genPlanLeaf(name string, fields []string, o ref.Opts, refs bool) *ref.Crit {
	c := &ref.Crit{Op: planLeafOps[nd.Choice(name+".op", len(planLeafOps))], Field: fields[nd.Choice(name+".field", len(fields))]}
	operand := func(n string) interface{} {
		if refs {
			switch nd.Choice(n+".ref", 3) {
			case 1:
				return ref.FieldRef{Name: "y"}
			case 2:
				return ref.FieldRef{Name: "y", Dollar: true}
			}
		}
		return ref.Value(n, o)
	}
	switch c.Op {
	case ref.OpExists, ref.OpNotExists:
	case ref.OpLike:
		c.Pattern = "^a"
	case ref.OpIn, ref.OpContains:
		c.Vals = []interface{}{operand(name + ".v")}
	default:
		c.Val = operand(name + ".v")
	}
	return c
}

func genPlanTree(name string, depth int, fields []string, o ref.Opts, refs bool) *ref.Crit {
	n := 4
	if depth == 0 {
		n = 1
	}
	switch nd.Choice(name+".node", n) {
	case 1:
		return &ref.Crit{Op: ref.OpNot, A: genPlanTree(name+"n", depth-1, fields, o, refs)}
	case 2:
		return &ref.Crit{Op: ref.OpAnd, A: genPlanTree(name+"l", depth-1, fields, o, refs), B: genPlanTree(name+"r", depth-1, fields, o, refs)}
	case 3:
		return &ref.Crit{Op: ref.OpOr, A: genPlanTree(name+"l", depth-1, fields, o, refs), B: genPlanTree(name+"r", depth-1, fields, o, refs)}
	}
	return genPlanLeaf(name, fields, o, refs)
}

// planSound: whenever the document satisfies the criteria, every index range the
// planner derives contains the document's value (an index plan re-applies the
// criteria to each candidate, so it can only lose documents through its ranges).
func planSound(crit *ref.Crit, idxFields []string, docFields map[string]interface{}) {
	var indexes []index.Index
	for _, f := range idxFields {
		indexes = append(indexes, index.CreateIndex("c", f, index.SingleField, nil))
	}
	q := query.NewQuery("c").Where(buildCrit(crit))
	nq, err := normalizeCriteria(q)
	nd.Assert("C02.plan.normalize-ok", err == nil)
	if err != nil {
		return
	}
	queries := getIndexQueries(nq, indexes)
	nd.Reach("planned")
	if !ref.Satisfy(crit, docFields) {
		return
	}
	for _, iq := range queries {
		rq, isRange := iq.(*index.RangeIndexQuery)
		nd.Assert("C02.plan.range-query", isRange)
		if !isRange || rq.Range == nil {
			continue
		}
		v, _ := ref.Lookup(docFields, rq.Idx.Field())
		rr := ref.Rng{Start: rq.Range.Start, End: rq.Range.End, StartIncluded: rq.Range.StartIncluded, EndIncluded: rq.Range.EndIncluded}
		nd.Assert("C02.plan.range-not-empty", !rq.Range.IsEmpty())
		nd.Assert("C02.plan.range-sound", ref.Rank(rr.Start) >= 0 && ref.Rank(rr.End) >= 0 && ref.InRange(rr, v))
		nd.Reach("range-checked")
	}
}

var planVal = ref.Opts{Kinds: ref.KNil | ref.KFloat | ref.KString, MaxStr: 1, ConcFloats: true}
var planDoc = ref.Opts{Kinds: ref.KNil | ref.KFloat | ref.KString | ref.KBool, MaxStr: 1}

//verif:harness props=C02,C20 tier=quick bounds="planner ranges for every single criterion (11 operators) on field x or y, operand = literal nil/float{-1.5,0,2.5}/string<=1 or a field reference Field(y)/\"$y\"; index sets {x},{y},{x,y}; document fields x,y absent or nil/float64/string<=1/bool (symbolic)"
func H_C02_plan_leaf() {
	crit := genPlanLeaf("c", []string{"x", "y"}, planVal, true)
	idx := [][]string{{"x"}, {"y"}, {"x", "y"}}[nd.Choice("indexes", 3)]
	do := planDoc
	if crit.Op == ref.OpLike {
		do.Kinds &^= ref.KString // regexp matching runs concretely; Like never yields a range
	}
	planSound(crit, idx, genFields("d", do, "x", "y"))
	nd.Reach("end")
}

var planVal2 = ref.Opts{Kinds: ref.KNil | ref.KFloat, ConcFloats: true}
var planDoc2 = ref.Opts{Kinds: ref.KNil | ref.KFloat}

//verif:harness props=C02,C20 tier=quick bounds="planner ranges for every criteria tree of depth <= 1 (Not/And/Or over 11 leaf operators on x or y) with literal operands nil/float{0,2.5}; index sets {x},{y},{x,y}; document fields absent/nil/float64 (symbolic)"
func H_C02_plan_tree1() {
	lits := planVal2
	lits.TwoFloats = true
	crit := genPlanTree("c", 1, []string{"x", "y"}, lits, false)
	idx := [][]string{{"x"}, {"y"}, {"x", "y"}}[nd.Choice("indexes", 3)]
	planSound(crit, idx, genFields("d", planDoc2, "x", "y"))
	nd.Reach("end")
}

func genSmallTree(name string, depth int, ops []int, o ref.Opts) *ref.Crit {
	n := 4
	if depth == 0 {
		n = 1
	}
	switch nd.Choice(name+".node", n) {
	case 1:
		return &ref.Crit{Op: ref.OpNot, A: genSmallTree(name+"n", depth-1, ops, o)}
	case 2:
		return &ref.Crit{Op: ref.OpAnd, A: genSmallTree(name+"l", depth-1, ops, o), B: genSmallTree(name+"r", depth-1, ops, o)}
	case 3:
		return &ref.Crit{Op: ref.OpOr, A: genSmallTree(name+"l", depth-1, ops, o), B: genSmallTree(name+"r", depth-1, ops, o)}
	}
	return &ref.Crit{Op: ops[nd.Choice(name+".op", len(ops))], Field: "x", Val: ref.Value(name+".v", o)}
}

//verif:harness props=C02,C20 tier=thorough bounds="planner ranges for every criteria tree of depth <= 2 over leaves x Eq/Gt/LtEq literal with literals nil/0.0, index {x}; document field absent/nil/float64 (symbolic)"
func H_C02_plan_tree2() {
	crit := genSmallTree("c", 2, []int{ref.OpEq, ref.OpGt, ref.OpLtEq}, ref.Opts{Kinds: ref.KNil | ref.KFloat, ConcFloats: true, OneFloat: true})
	planSound(crit, []string{"x"}, genFields("d", planDoc2, "x"))
	nd.Reach("end")
}

// negChain wraps a criterion in k negations.
func negChain(c *ref.Crit, k int) *ref.Crit {
	for i := 0; i < k; i++ {
		c = &ref.Crit{Op: ref.OpNot, A: c}
	}
	return c
}

func negChainHarness(lit ref.Opts, maxInner int) {
	leaf := func(n string, maxNeg int) *ref.Crit {
		return negChain(genCmpLeaf(n, "x", lit), nd.Choice(n+".negs", maxNeg+1))
	}
	var crit *ref.Crit
	switch nd.Choice("shape", 3) {
	case 0:
		crit = leaf("a", 4)
	case 1:
		crit = negChain(&ref.Crit{Op: ref.OpAnd, A: leaf("a", maxInner), B: leaf("b", maxInner)}, nd.Choice("outer.negs", 3))
	case 2:
		crit = negChain(&ref.Crit{Op: ref.OpOr, A: leaf("a", maxInner), B: leaf("b", maxInner)}, nd.Choice("outer.negs", 3))
	}
	planSound(crit, []string{"x"}, genFields("d", planDoc2, "x"))
	nd.Reach("end")
}

//verif:harness props=C02,C01,C16 tier=quick bounds="negation chains: Not^k(leaf) for k<=4, and Not^j (j<=2) of an And/Or of two chains with k<=1, over comparison leaves on x with literals nil/0.0, index on x; document field absent/nil/float64 (symbolic): planner ranges stay sound"
func H_C02_plan_negchains() {
	negChainHarness(ref.Opts{Kinds: ref.KNil | ref.KFloat, ConcFloats: true, OneFloat: true}, 1)
}

//verif:harness props=C02,C01,C16 tier=thorough bounds="negation chains as above with inner chains k<=4 and literals nil/float{-1.5,0,2.5}"
func H_C02_plan_negchains_full() {
	negChainHarness(planVal2, 4)
}
