package clover

import (
	"github.com/ostafen/clover/v2/zzverif/memstore"
)

// Native replay: the same reference store, but the real msgpack/json/uuid libraries.

type env struct {
	db *DB
	ms *memstore.Store
}

func openEnv() *env {
	ms := memstore.New()
	db, _ := OpenWithStore(ms)
	return &env{db: db, ms: ms}
}

func sameBlob(a, b []byte) bool { return string(a) == string(b) }

func fbits(f float64) uint64 { return mathFloat64bits(f) }
