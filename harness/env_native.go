package clover

import (
	"os"

	"github.com/dgraph-io/badger/v4"
	"github.com/ostafen/clover/v2/store"
	cbadger "github.com/ostafen/clover/v2/store/badger"
	cbolt "github.com/ostafen/clover/v2/store/bbolt"
	"path/filepath"

	"github.com/ostafen/clover/v2/zzverif/memstore"
)

// Native replay: the same reference store, but the real msgpack/json/uuid libraries.

type env struct {
	db *DB
	ms *memstore.Store
}

func openMemEnv() *env {
	ms := memstore.New()
	db, _ := OpenWithStore(ms)
	return &env{db: db, ms: ms}
}

func sameBlob(a, b []byte) bool { return string(a) == string(b) }

func fbits(f float64) uint64 { return mathFloat64bits(f) }

func tmpPath(name string) string {
	dir := os.Getenv("VERIF_WORK")
	if dir == "" {
		dir = os.TempDir()
	}
	return filepath.Join(dir, name)
}

func writeRawFile(path string, wellFormed bool) {
	if wellFormed {
		os.WriteFile(path, []byte("[]"), 0o644)
	} else {
		os.WriteFile(path, []byte("{ this is not json"), 0o644)
	}
}

func setUnreadable(path string) { os.Remove(path) }

func openAdapter(backend int) store.Store {
	if backend == 0 {
		dir, _ := os.MkdirTemp(os.Getenv("VERIF_WORK"), "bolt")
		st, err := cbolt.Open(dir)
		if err != nil {
			panic(err)
		}
		return st
	}
	opts := badger.DefaultOptions("").WithInMemory(true)
	opts.Logger = nil
	st, err := cbadger.OpenWithOptions(opts)
	if err != nil {
		panic(err)
	}
	return st
}

func replayScale() int { return 400 }
