package query

import (
	d "github.com/ostafen/clover/v2/document"
	"github.com/ostafen/clover/v2/zzverif/nd"
	"github.com/ostafen/clover/v2/zzverif/ref"
)

// build turns a specification-level tree into clover criteria through the public builders.
func build(c *ref.Crit) Criteria {
	switch c.Op {
	case ref.OpAnd:
		return build(c.A).And(build(c.B))
	case ref.OpOr:
		return build(c.A).Or(build(c.B))
	case ref.OpNot:
		return build(c.A).Not()
	case ref.OpFunc:
		res := c.FuncRes
		return NewQuery("c").MatchFunc(func(_ *d.Document) bool { return res }).Criteria()
	}
	f := Field(c.Field)
	switch c.Op {
	case ref.OpExists:
		return f.Exists()
	case ref.OpNotExists:
		return f.NotExists()
	case ref.OpEq:
		return f.Eq(lit(c.Val))
	case ref.OpNeq:
		return f.Neq(lit(c.Val))
	case ref.OpGt:
		return f.Gt(lit(c.Val))
	case ref.OpGtEq:
		return f.GtEq(lit(c.Val))
	case ref.OpLt:
		return f.Lt(lit(c.Val))
	case ref.OpLtEq:
		return f.LtEq(lit(c.Val))
	case ref.OpLike:
		return f.Like(c.Pattern)
	case ref.OpIn:
		return f.In(lits(c.Vals)...)
	case ref.OpContains:
		return f.Contains(lits(c.Vals)...)
	}
	panic("bad op")
}

func lit(v interface{}) interface{} {
	if fr, ok := v.(ref.FieldRef); ok {
		if fr.Dollar {
			return "$" + fr.Name
		}
		return Field(fr.Name)
	}
	return v
}

func lits(vs []interface{}) []interface{} {
	out := make([]interface{}, len(vs))
	for i, v := range vs {
		out[i] = lit(v)
	}
	return out
}

// genBool generates an arbitrary connective tree over MatchFunc leaves with symbolic outcomes.
func genBool(name string, depth int) *ref.Crit {
	n := 4
	if depth == 0 {
		n = 1
	}
	switch nd.Choice(name+".op", n) {
	case 0:
		return &ref.Crit{Op: ref.OpFunc, FuncRes: nd.Bool(name + ".leaf")}
	case 1:
		return &ref.Crit{Op: ref.OpNot, A: genBool(name+"n", depth-1)}
	case 2:
		return &ref.Crit{Op: ref.OpAnd, A: genBool(name+"l", depth-1), B: genBool(name+"r", depth-1)}
	default:
		return &ref.Crit{Op: ref.OpOr, A: genBool(name+"l", depth-1), B: genBool(name+"r", depth-1)}
	}
}

//verif:harness props=C16 tier=quick bounds="every Not/And/Or tree of depth <= 2 over MatchFunc leaves; leaf outcomes symbolic (hence all documents)"
func H_C16_connectives() {
	t := genBool("t", 2)
	doc := d.NewDocument()
	c := build(t)
	nd.Assert("C16.truth-table", c.Satisfy(doc) == ref.Satisfy(t, nil))
	nd.Reach("end")
}

//verif:harness props=C16 tier=quick bounds="De Morgan and double negation with operands = arbitrary trees of depth <= 1 (overall nesting 3), symbolic leaf outcomes"
func H_C16_demorgan() {
	a, b := genBool("a", 1), genBool("b", 1)
	doc := d.NewDocument()
	ca, cb := build(a), build(b)
	nd.Assert("C16.demorgan.and", ca.And(cb).Not().Satisfy(doc) == ca.Not().Or(cb.Not()).Satisfy(doc))
	nd.Assert("C16.demorgan.or", ca.Or(cb).Not().Satisfy(doc) == ca.Not().And(cb.Not()).Satisfy(doc))
	nd.Assert("C16.double-negation", ca.Not().Not().Satisfy(doc) == ca.Satisfy(doc))
	nd.Assert("C16.not", ca.Not().Satisfy(doc) == !ca.Satisfy(doc))
	nd.Reach("end")
}

//verif:harness props=C16 tier=thorough bounds="every Not/And/Or tree of depth <= 3 over MatchFunc leaves with symbolic outcomes"
func H_C16_connectives3() {
	t := genBool("t", 3)
	doc := d.NewDocument()
	nd.Assert("C16.truth-table", build(t).Satisfy(doc) == ref.Satisfy(t, nil))
	nd.Reach("end")
}

var c16Val = ref.Opts{Kinds: ref.KNil | ref.KInt | ref.KFloat | ref.KString | ref.KBool | ref.KArray, ElemKinds: ref.KNil | ref.KFloat | ref.KString,
	MaxStr: 1, MaxElems: 1, SmallInts: true}

// docWith builds a document whose field x is absent or holds v, and y similarly.
func docWith(name string, o ref.Opts, fields ...string) (*d.Document, map[string]interface{}) {
	m := map[string]interface{}{}
	doc := d.NewDocument()
	for _, f := range fields {
		if nd.Choice(name+"."+f+".present", 2) == 1 {
			v := ref.Value(name+"."+f, o)
			m[f] = v
			doc.Set(f, v)
		}
	}
	return doc, m
}

var leafOps = []int{ref.OpExists, ref.OpNotExists, ref.OpEq, ref.OpNeq, ref.OpGt, ref.OpGtEq, ref.OpLt, ref.OpLtEq, ref.OpIn, ref.OpContains, ref.OpLike}

var c16List = ref.Opts{Kinds: ref.KNil | ref.KFloat | ref.KString, MaxStr: 1}

func genOperand(name string, o ref.Opts, refs bool) interface{} {
	n := 1
	if refs {
		n = 3
	}
	switch nd.Choice(name+".operand", n) {
	case 1:
		return ref.FieldRef{Name: "y"}
	case 2:
		return ref.FieldRef{Name: "y", Dollar: true}
	}
	return ref.Value(name, o)
}

func genLeaf(name string, o ref.Opts, refs bool) *ref.Crit {
	op := leafOps[nd.Choice(name+".op", len(leafOps))]
	c := &ref.Crit{Op: op, Field: "x"}
	switch op {
	case ref.OpExists, ref.OpNotExists:
	case ref.OpLike:
		c.Pattern = []string{"^a", "b$", ".*"}[nd.Choice(name+".pat", 3)]
	case ref.OpIn, ref.OpContains:
		n := nd.Choice(name+".n", 3)
		for i := 0; i < n; i++ {
			c.Vals = append(c.Vals, genOperand(name+".v", c16List, refs))
		}
	default:
		c.Val = genOperand(name+".v", o, refs)
	}
	return c
}

//verif:harness props=C16 tier=quick bounds="each leaf operator (Exists,NotExists,Eq,Neq,Gt,GtEq,Lt,LtEq,In<=2,Contains<=2,Like) on field x absent or nil/int(boundary set)/float64/string<=1/bool/array<=1; literal of the same kinds; compared with the documented semantics"
func H_C16_leaf_vs_ref() {
	oLike := c16Val
	t := genLeaf("c", c16Val, false)
	if t.Op == ref.OpLike {
		oLike.Kinds = ref.KNil | ref.KFloat | ref.KBool // Like subject strings are concrete below
	}
	var doc *d.Document
	var m map[string]interface{}
	if t.Op == ref.OpLike {
		doc, m = docWith("d", oLike, "x")
		if nd.Choice("like.str", 2) == 1 {
			s := []string{"a", "ab", "b", ""}[nd.Choice("like.s", 4)]
			m["x"] = s
			doc.Set("x", s)
		}
	} else {
		doc, m = docWith("d", c16Val, "x")
	}
	nd.Assert("C16.leaf", build(t).Satisfy(doc) == ref.Satisfy(t, m))
	nd.Reach("end")
}

var c16Small = ref.Opts{Kinds: ref.KNil | ref.KFloat | ref.KString | ref.KBool, MaxStr: 1}

//verif:harness props=C16 tier=quick bounds="field-reference operands (Field(y) and \"$y\", also inside In/Contains lists) with y absent or nil/float64/string<=1/bool; x likewise (arrays <=1 for Contains)"
func H_C16_fieldref() {
	o := c16Small
	t := genLeaf("c", o, true)
	if t.Op == ref.OpLike || t.Op == ref.OpExists || t.Op == ref.OpNotExists {
		nd.Assume(false)
	}
	od := o
	if t.Op == ref.OpContains {
		od.Kinds |= ref.KArray
		od.ElemKinds = ref.KNil | ref.KFloat | ref.KString
		od.MaxElems = 1
	}
	doc, m := docWith("d", od, "x", "y")
	nd.Assert("C16.fieldref", build(t).Satisfy(doc) == ref.Satisfy(t, m))
	nd.Reach("end")
}

//verif:harness props=C16,C10 tier=quick bounds="comparison/In leaves on an integer field at full 64-bit width: field int64 or uint64 (symbolic), literal int64 or uint64 (symbolic), operators Eq,Neq,Gt,GtEq,Lt,LtEq,In: same result as the documented numeric semantics (mixed signedness, values >= 2^63)"
func H_C16_leaf_intwidth() {
	mk := func(n string) interface{} {
		if nd.Choice(n+".unsigned", 2) == 1 {
			return nd.Uint64(n)
		}
		return nd.Int64(n)
	}
	fv, lv := mk("field"), mk("lit")
	ops := []int{ref.OpEq, ref.OpNeq, ref.OpGt, ref.OpGtEq, ref.OpLt, ref.OpLtEq, ref.OpIn}
	op := ops[nd.Choice("op", len(ops))]
	t := &ref.Crit{Op: op, Field: "x", Val: lv}
	if op == ref.OpIn {
		t = &ref.Crit{Op: op, Field: "x", Vals: []interface{}{lv}}
	}
	doc := d.NewDocument()
	doc.Set("x", fv)
	nd.Assert("C16.leaf.int-width", build(t).Satisfy(doc) == ref.Satisfy(t, map[string]interface{}{"x": fv}))
	nd.Reach("end")
}
