package query

import (
	d "github.com/ostafen/clover/v2/document"
	"github.com/ostafen/clover/v2/zzverif/nd"
)

type qSnap struct {
	collection string
	criteria   Criteria
	limit      int
	skip       int
	nOpts      int
	opts       [2]SortOption
}

func snap(q *Query) qSnap {
	s := qSnap{collection: q.collection, criteria: q.criteria, limit: q.limit, skip: q.skip, nOpts: len(q.sortOpts)}
	for i := 0; i < len(q.sortOpts) && i < 2; i++ {
		s.opts[i] = q.sortOpts[i]
	}
	return s
}

//verif:harness props=C07,C09 tier=quick bounds="every Query builder (Where, MatchFunc, Skip, Limit, Sort with 0-2 options) with symbolic integer arguments, and every criteria combinator (And, Or, Not): the receiver (and the caller's option slice) is left unchanged, no plain write hits memory reachable from the receiver, and the result carries exactly the requested change"
func H_C07_builders() {
	c0 := Field("x").Gt(1.0)
	base := NewQuery("c").Where(c0).Skip(1).Limit(2).Sort(SortOption{Field: "s", Direction: -1})
	before := snap(base)
	nd.FreezeDeep(base, "receiver query")
	n := nd.Int("n")
	var res *Query
	switch nd.Choice("builder", 6) {
	case 0:
		c1 := Field("y").Eq(2.0)
		res = base.Where(c1)
		nd.Assert("C07.where.result", res.criteria == c1 && res.skip == 1 && res.limit == 2)
	case 1:
		res = base.MatchFunc(func(*d.Document) bool { return true })
		nd.Assert("C07.matchfunc.result", res.criteria != c0 && res.collection == "c")
	case 2:
		res = base.Skip(n)
		if n >= 0 {
			nd.Assert("C07.skip.result", res.skip == n && res.limit == 2)
		} else {
			nd.Assert("C07.skip.negative-ignored", res.skip == 1)
		}
	case 3:
		res = base.Limit(n)
		nd.Assert("C07.limit.result", res.limit == n && res.skip == 1)
	case 4:
		opts := []SortOption{{Field: "a", Direction: n}, {Field: "b", Direction: nd.Int("m")}}
		k := nd.Choice("nopts", 3)
		res = base.Sort(opts[:k]...)
		nd.Assert("C07.sort.caller-slice-unchanged", opts[0].Direction == n && opts[0].Field == "a")
		if k == 0 {
			nd.Assert("C07.sort.default", len(res.sortOpts) == 1 && res.sortOpts[0].Field == d.ObjectIdField && res.sortOpts[0].Direction == 1)
		} else {
			want := 1
			if n < 0 {
				want = -1
			}
			nd.Assert("C07.sort.normalised", len(res.sortOpts) == k && res.sortOpts[0].Field == "a" && res.sortOpts[0].Direction == want)
		}
	case 5:
		c1 := Field("y").Eq(2.0)
		var comb Criteria
		switch nd.Choice("comb", 3) {
		case 0:
			comb = c0.And(c1)
		case 1:
			comb = c0.Or(c1)
		case 2:
			comb = c0.Not()
		}
		u := c0.(*UnaryCriteria)
		nd.Assert("C07.combinator.operand-unchanged", comb != c0 && u.OpType == GtOp && u.Field == "x" && u.Value == 1.0)
		res = base
	}
	nd.Assert("C07.builder.receiver-unchanged", snap(base) == before)
	nd.Assert("C07.builder.fresh-object", res != base || nd.FrozenWrites() == 0)
	nd.Assert("C07.no-plain-write.builder", nd.FrozenWrites() == 0)
	nd.Reach("end")
}

//verif:harness props=C07 tier=quick expect=violation bounds="vacuity twin: a builder that writes its receiver must trip the monitor"
func H_C07_freeze_twin() {
	base := NewQuery("c").Skip(1)
	nd.FreezeDeep(base, "receiver query")
	base.skip = 3
	nd.Assert("C07.twin.no-plain-write", nd.FrozenWrites() == 0)
}
