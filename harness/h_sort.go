package clover

import (
	d "github.com/ostafen/clover/v2/document"
	"github.com/ostafen/clover/v2/query"
	"github.com/ostafen/clover/v2/zzverif/nd"
	"github.com/ostafen/clover/v2/zzverif/ref"
)

type sortKey struct {
	field string
	desc  bool
}

// keyCmp compares two documents on one sort key. absentLow selects the reading
// "absent sorts before nil"; otherwise absent and nil are tied. The statement
// only fixes that both precede every other value, so both readings are accepted.
func keyCmp(a, b map[string]interface{}, k sortKey, absentLow bool) int {
	va, ha := ref.Lookup(a, k.field)
	vb, hb := ref.Lookup(b, k.field)
	c := 0
	if absentLow && ha != hb {
		if !ha {
			c = -1
		} else {
			c = 1
		}
	} else {
		c = ref.Compare(va, vb)
	}
	if k.desc {
		c = -c
	}
	return c
}

func docCmp(a, b map[string]interface{}, keys []sortKey, absentLow bool) int {
	for _, k := range keys {
		if c := keyCmp(a, b, k, absentLow); c != 0 {
			return c
		}
	}
	return 0
}

func isSorted(docs []*d.Document, keys []sortKey, absentLow bool) bool {
	for i := 1; i < len(docs); i++ {
		if docCmp(docs[i-1].ToMap(), docs[i].ToMap(), keys, absentLow) > 0 {
			return false
		}
	}
	return true
}

// sameKeySeq: the two sequences carry equal sort-key tuples position by position.
func sameKeySeq(a, b []*d.Document, keys []sortKey) bool {
	if len(a) != len(b) {
		return false
	}
	for i := range a {
		if docCmp(a[i].ToMap(), b[i].ToMap(), keys, false) != 0 || docCmp(a[i].ToMap(), b[i].ToMap(), keys, true) != 0 {
			return false
		}
	}
	return true
}

func window(n, skip, limit int) (int, int) {
	if skip < 0 {
		skip = 0
	}
	lo := skip
	if lo > n {
		lo = n
	}
	hi := n
	if limit >= 0 && limit < n-lo {
		hi = lo + limit
	}
	return lo, hi
}

func sortHarness(nDocs int, o ref.Opts, twoKeys bool, withCrit bool, windows bool) {
	e := openEnv()
	nIdx := 3
	if withCrit {
		nIdx = 4 // also: indexes on BOTH the filter field and the sort field
	}
	idxChoice := nd.Choice("index", nIdx) // none, on the sort field, on the filter field
	cfg := stateCfg{nDocs: nDocs, fields: func(i int) map[string]interface{} {
		var fs map[string]interface{}
		if o.Kinds == 0 {
			// fixed keys with a duplicate and an absent/nil pair
			fs = []map[string]interface{}{{"s": 2.5}, {"s": nil}, {"s": 2.5}, {}}[i%4]
			fs = cloneFields(fs)
		} else {
			fs = genFields("d", o, "s")
		}
		if twoKeys {
			fs["t"] = []float64{1, 0, 1}[i%3]
		}
		if withCrit {
			fs["x"] = []float64{1, 2, 3}[i%3]
		}
		return fs
	}}
	switch idxChoice {
	case 1:
		cfg.idxField = []string{"s"}
	case 2:
		cfg.idxField = []string{"x"}
	case 3:
		cfg.idxField = []string{"x", "s"}
	}
	a := buildState(e, cfg)
	c := a.coll("c")
	q := query.NewQuery("c")
	var crit *ref.Crit
	if withCrit {
		crit = &ref.Crit{Op: ref.OpGtEq, Field: "x", Val: nd.Float64("x.lit")}
		q = q.Where(buildCrit(crit))
	}
	dir := nd.Int("dir")
	keys := []sortKey{{"s", dir < 0}}
	opts := []query.SortOption{{Field: "s", Direction: dir}}
	if twoKeys {
		dir2 := nd.Int("dir2")
		keys = append(keys, sortKey{"t", dir2 < 0})
		opts = append(opts, query.SortOption{Field: "t", Direction: dir2})
	}
	sq := q.Sort(opts...)
	all, err := e.db.FindAll(sq)
	nd.Assert("C08.sort.noerr", err == nil)
	nd.Assert("C08.sort.permutation", sameDocSet(all, c.matching(crit)))
	nd.Assert("C08.sort.ordered", isSorted(all, keys, false) || isSorted(all, keys, true))
	if !windows {
		nd.Reach("end")
		return
	}
	skip, limit := nd.Int("skip"), nd.Int("limit")
	win, err := e.db.FindAll(sq.Skip(skip).Limit(limit))
	lo, hi := window(len(all), skip, limit)
	nd.Assert("C08.window.noerr", err == nil)
	nd.Assert("C08.window.exact", sameKeySeq(win, all[lo:hi], keys))
	// unsorted window: count and membership
	uw, err := e.db.FindAll(q.Skip(skip).Limit(limit))
	nd.Assert("C08.unsorted-window.count", err == nil && len(uw) == hi-lo)
	for _, g := range uw {
		nd.Assert("C08.unsorted-window.member", c.doc(g.ObjectId()) != nil && (crit == nil || ref.Satisfy(crit, c.doc(g.ObjectId()).fields)))
	}
	// derived operations agree with FindAll on the same (sorted, windowed) query
	wq := sq.Skip(skip).Limit(limit)
	n, err := e.db.Count(wq)
	nd.Assert("C09.count", err == nil && n == len(win))
	if limit != 0 {
		ex, err := e.db.Exists(sq.Skip(skip))
		nd.Assert("C09.exists", err == nil && ex == (len(all)-lo > 0))
		ff, err := e.db.FindFirst(sq.Skip(skip))
		if len(all)-lo > 0 {
			nd.Assert("C09.findfirst", err == nil && ff != nil && sameKeySeq([]*d.Document{ff}, all[lo:lo+1], keys))
		} else {
			nd.Assert("C09.findfirst-none", err == nil && ff == nil)
		}
	}
	stopAt := nd.Choice("stop", nDocs+1) // consumer returns false on call number stopAt+1
	calls := 0
	var seen []*d.Document
	err = e.db.ForEach(wq, func(doc *d.Document) bool {
		calls++
		seen = append(seen, doc)
		return calls <= stopAt
	})
	wantCalls := stopAt + 1
	if wantCalls > len(win) {
		wantCalls = len(win)
	}
	nd.Assert("C09.foreach.noerr", err == nil)
	nd.Assert("C09.foreach.stops", calls == wantCalls)
	nd.Assert("C09.foreach.prefix", sameKeySeq(seen, win[:wantCalls], keys))
	nd.Reach("end")
}

var sortValConc = ref.Opts{Kinds: ref.KNil | ref.KFloat | ref.KBool, ConcFloats: true}
var sortValSym = ref.Opts{Kinds: ref.KNil | ref.KFloat | ref.KString, FloatNormal: true, MaxStr: 1}

//verif:harness props=C08,C02 tier=quick bounds="3 documents, sort key s absent/nil/bool/float from {-1.5,0,2.5} (duplicates arise), one sort option with symbolic direction (any int), index none / on the sort field (created before or after the data) / on another field: result is a permutation of the collection, ordered by the documented order"
func H_C08_sort1() { sortHarness(3, sortValConc, false, false, false) }

//verif:harness props=C08,C02,C01 tier=quick bounds="2 documents, two sort options (s then t) with symbolic directions, criteria x >= symbolic float64 literal, index none / on s / on x"
func H_C08_sort2_crit() { sortHarness(2, sortValConc, true, true, false) }

//verif:harness props=C08,C02,C14 tier=quick bounds="2 documents, ONE sort option on s (symbolic direction) together with criteria x >= symbolic literal; indexes none / on s / on x / on both x and s: the planner may serve the filter from one index and must still deliver the order of the other field"
func H_C08_sort1_crit() { sortHarness(2, sortValConc, false, true, false) }

//verif:harness props=C08,C09,C02 tier=quick bounds="4 documents with fixed sort keys (2.5, nil, 2.5, absent), symbolic direction, symbolic skip and limit (any int), index none / on s / on x: window of the sorted sequence, unsorted window count, Count/Exists/FindFirst agree, ForEach stops after the consumer returns false at call k"
func H_C08_window() { sortHarness(4, ref.Opts{}, false, false, true) }

//verif:harness props=C08,C09,C02 tier=thorough bounds="3 documents, sort key s absent/nil/string<=1/symbolic float64 (0 or |x|>=2^-1000), symbolic direction, index none / on s (before or after the data) / on another field: ordered permutation"
func H_C08_sort3_sym() { sortHarness(3, sortValSym, false, false, false) }

//verif:harness props=C08 tier=quick bounds="Sort() without options orders by _id ascending; explicit sort on _id with symbolic direction (any int), alone or as the leading key, with/without an index on _id, FindFirst and a window: 3 documents inserted in any of 3 id orders"
func H_C08_default_sort() {
	e := openEnv()
	nd.Assert("setup.create", e.db.CreateCollection("c") == nil)
	order := [][]int{{0, 1, 2}, {2, 0, 1}, {1, 2, 0}}[nd.Choice("order", 3)]
	for _, i := range order {
		nd.Assert("setup.insert", e.db.Insert("c", mkDoc(map[string]interface{}{"_id": poolIds[i]})) == nil)
	}
	docs, err := e.db.FindAll(query.NewQuery("c").Sort())
	nd.Assert("C08.default-sort", err == nil && len(docs) == 3 && docs[0].ObjectId() == poolIds[0] && docs[1].ObjectId() == poolIds[1] && docs[2].ObjectId() == poolIds[2])
	// an explicit sort on _id (the field a plain collection scan happens to be ordered by), any direction,
	// with and without an index on _id, also as the leading key of two, with a window
	if nd.Choice("index._id", 2) == 1 {
		nd.Assert("setup.index", e.db.CreateIndex("c", "_id") == nil)
	}
	dir := nd.Int("dir")
	keys := []sortKey{{"_id", dir < 0}}
	opts := []query.SortOption{{Field: "_id", Direction: dir}}
	if nd.Choice("second-key", 2) == 1 {
		keys = append(keys, sortKey{"z", false})
		opts = append(opts, query.SortOption{Field: "z", Direction: 1})
	}
	docs, err = e.db.FindAll(query.NewQuery("c").Sort(opts...))
	nd.Assert("C08.id-sort.ordered", err == nil && len(docs) == 3 && isSorted(docs, keys, false))
	first, err := e.db.FindFirst(query.NewQuery("c").Sort(opts...))
	want := poolIds[0]
	if dir < 0 {
		want = poolIds[2]
	}
	nd.Assert("C08.id-sort.first", err == nil && first != nil && first.ObjectId() == want)
	win, err := e.db.FindAll(query.NewQuery("c").Sort(opts...).Skip(1).Limit(1))
	nd.Assert("C08.id-sort.window", err == nil && len(win) == 1 && win[0].ObjectId() == poolIds[1])
	nd.Reach("end")
}

//verif:harness props=C08 tier=quick bounds="skipLimitNode fed 4 documents with symbolic skip and limit (any int): forwards exactly the window and reports stop once the limit is consumed"
func H_C08_skiplimit_unit() {
	skip, limit := nd.Int("skip"), nd.Int("limit")
	forwarded := 0
	out := &consumerNode{consumer: func(doc *d.Document) error { forwarded++; return nil }}
	n := &skipLimitNode{skip: skip, limit: limit}
	n.SetNext(out)
	fed := 0
	for i := 0; i < 4; i++ {
		fed++
		if err := n.Callback(d.NewDocument()); err != nil {
			break
		}
	}
	lo, hi := window(4, skip, limit)
	_ = fed
	nd.Assert("C08.window-unit", forwarded == hi-lo)
	nd.Reach("end")
}
