package clover

import (
	"bufio"
	"encoding/json"
	"errors"
	"io"
	"os"

	"github.com/dgraph-io/badger/v4"
	"github.com/gofrs/uuid/v5"
	"github.com/ostafen/clover/v2/store"
	cbadger "github.com/ostafen/clover/v2/store/badger"
	cbolt "github.com/ostafen/clover/v2/store/bbolt"
	_ "github.com/ostafen/clover/v2/zzverif/libstub"
	"github.com/ostafen/clover/v2/index"
	"github.com/ostafen/clover/v2/zzverif/codec"
	"github.com/ostafen/clover/v2/zzverif/memstore"
	"github.com/ostafen/clover/v2/zzverif/nd"
)

// ---- codecs that cannot be encoded: identity round trips through opaque blobs ----

//verif:redirect encoding/json.Marshal stubJSONMarshal
func stubJSONMarshal(v interface{}) ([]byte, error) {
	switch x := v.(type) {
	case *collectionMetadata:
		c := collectionMetadata{Size: x.Size}
		if x.Indexes != nil {
			c.Indexes = append([]index.Info{}, x.Indexes...)
		}
		return codec.Put("J", c), nil
	case []map[string]interface{}:
		return codec.Put("E", codec.DeepCopy(toIfaceSlice(x))), nil
	}
	return nil, errors.New("stub json: unsupported value")
}

func toIfaceSlice(ms []map[string]interface{}) []interface{} {
	out := make([]interface{}, len(ms))
	for i, m := range ms {
		out[i] = m
	}
	return out
}

//verif:redirect encoding/json.Unmarshal stubJSONUnmarshal
func stubJSONUnmarshal(data []byte, v interface{}) error {
	x, ok := codec.Get(data)
	if !ok {
		return errors.New("stub json: not a blob")
	}
	switch p := v.(type) {
	case *collectionMetadata:
		c, isMeta := x.(collectionMetadata)
		if !isMeta {
			return errors.New("stub json: not metadata")
		}
		p.Size = c.Size
		p.Indexes = nil
		if c.Indexes != nil {
			p.Indexes = append([]index.Info{}, c.Indexes...)
		}
		return nil
	}
	return errors.New("stub json: unsupported target")
}

// ---- object ids: fresh ids come from a pool, never colliding with ids chosen by the harness ----

var genIds = []string{
	"aaaaaaaa-0000-4000-8000-000000000001",
	"aaaaaaaa-0000-4000-8000-000000000002",
	"aaaaaaaa-0000-4000-8000-000000000003",
	"aaaaaaaa-0000-4000-8000-000000000004",
}
var genNext int

//verif:redirect github.com/gofrs/uuid/v5.NewV4 stubNewV4
func stubNewV4() (uuid.UUID, error) {
	if genNext >= len(genIds) {
		nd.Assume(false)
	}
	u, err := uuid.FromString(genIds[genNext])
	genNext++
	return u, err
}

// ---- environment ----

type env struct {
	db *DB
	ms *memstore.Store
}

func openMemEnv() *env {
	ms := memstore.New()
	db, _ := OpenWithStore(ms)
	return &env{db: db, ms: ms}
}

// sameBlob: two stored values are equal when they are the same opaque blob (blobs are immutable).
func sameBlob(a, b []byte) bool { return string(a) == string(b) }

func fbits(f float64) uint64 { return mathFloat64bits(f) }

// ---- a one-slot virtual file system and the JSON file codec (identity on the document list) ----

var vfs = map[string][]byte{}
var vfsFailOpen, vfsFailWrite, vfsBadContent bool
var openFiles = map[*os.File]string{}
var readers = map[*bufio.Reader]*os.File{}
var decoders = map[*json.Decoder]*bufio.Reader{}

//verif:redirect os.WriteFile stubWriteFile
func stubWriteFile(name string, data []byte, perm os.FileMode) error {
	if vfsFailWrite {
		return errors.New("stub fs: write failed")
	}
	vfs[name] = data
	return nil
}

//verif:redirect os.Open stubOpen
func stubOpen(name string) (*os.File, error) {
	if vfsFailOpen {
		return nil, errors.New("stub fs: open failed")
	}
	if _, ok := vfs[name]; !ok {
		return nil, errors.New("stub fs: no such file")
	}
	f := &os.File{}
	openFiles[f] = name
	return f, nil
}

//verif:redirect bufio.NewReader stubNewReader
func stubNewReader(rd io.Reader) *bufio.Reader {
	r := &bufio.Reader{}
	if f, ok := rd.(*os.File); ok {
		readers[r] = f
	}
	return r
}

//verif:redirect encoding/json.NewDecoder stubNewDecoder
func stubNewDecoder(rd io.Reader) *json.Decoder {
	dec := &json.Decoder{}
	if r, ok := rd.(*bufio.Reader); ok {
		decoders[dec] = r
	}
	return dec
}

//verif:redirect (*encoding/json.Decoder).Decode stubDecoderDecode
func stubDecoderDecode(dec *json.Decoder, v interface{}) error {
	data := vfs[openFiles[readers[decoders[dec]]]]
	if vfsBadContent {
		return errors.New("stub json: ill-formed input")
	}
	x, ok := codec.Get(data)
	if !ok {
		return errors.New("stub json: not a blob")
	}
	list, isList := codec.DeepCopy(x).([]interface{})
	target, isTarget := v.(*[]*map[string]interface{})
	if !isList || !isTarget {
		return errors.New("stub json: unsupported target")
	}
	out := make([]*map[string]interface{}, 0, len(list))
	for _, e := range list {
		m := e.(map[string]interface{})
		out = append(out, &m)
	}
	*target = out
	return nil
}

func tmpPath(name string) string { return name }

func writeRawFile(path string, wellFormed bool) {
	vfs[path] = []byte("garbage")
	vfsBadContent = !wellFormed
}

func setUnreadable(path string) { delete(vfs, path); vfsFailOpen = true }

// openAdapter opens one of clover's real store adapters; in engine mode the library below it is the contract stub.
func openAdapter(backend int) store.Store {
	if backend == 0 {
		st, err := cbolt.Open("dbdir")
		nd.Assert("setup.open-bbolt", err == nil)
		return st
	}
	st, err := cbadger.OpenWithOptions(badger.DefaultOptions("").WithInMemory(true))
	nd.Assert("setup.open-badger", err == nil)
	return st
}

// replayScale: extra documents added by scaled native replays (none under the engine).
func replayScale() int { return 0 }
