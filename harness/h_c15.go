package clover

import (
	"bytes"

	"github.com/ostafen/clover/v2/store"
	"github.com/ostafen/clover/v2/zzverif/nd"
)

func sortedUnique(keys [][]byte) [][]byte {
	var out [][]byte
	for _, k := range keys {
		i := 0
		dup := false
		for i < len(out) {
			c := bytes.Compare(out[i], k)
			if c == 0 {
				dup = true
				break
			}
			if c > 0 {
				break
			}
			i++
		}
		if dup {
			continue
		}
		no := make([][]byte, 0, len(out)+1)
		no = append(no, out[:i]...)
		no = append(no, k)
		no = append(no, out[i:]...)
		out = no
	}
	return out
}

// cursorContract drives one adapter through the store.Store interface only.
func cursorContract(st store.Store, label string) {
	n := nd.Choice("nkeys", 3)
	var keys [][]byte
	tx, err := st.Begin(true)
	nd.Assert(label+".begin", err == nil)
	for i := 0; i < n; i++ {
		k := []byte{'k', nd.Byte("key")}
		if nd.Choice("key.long", 2) == 1 {
			k = append(k, nd.Byte("key2")) // proper-prefix pairs (k?, k??) arise
		}
		var v []byte
		if nd.Choice("value.nonempty", 2) == 1 {
			v = []byte("v")
		}
		nd.Assert(label+".set", tx.Set(k, v) == nil)
		keys = append(keys, k)
	}
	nd.Assert(label+".commit", tx.Commit() == nil)
	// a second transaction: read-only, or a write transaction that has already written an empty-valued key
	inWrite := nd.Choice("second-tx.writes", 2) == 1
	tx2, err := st.Begin(inWrite)
	nd.Assert(label+".begin2", err == nil)
	if inWrite {
		k := []byte{'k', nd.Byte("key.pending")}
		nd.Assert(label+".set-pending", tx2.Set(k, nil) == nil)
		keys = append(keys, k)
	}
	want := sortedUnique(keys)
	forward := nd.Bool("forward")
	var target []byte
	switch nd.Choice("target", 3) {
	case 0:
		target = []byte{'k', nd.Byte("target")}
	case 1:
		target = []byte{'j'} // before the first key
	case 2:
		target = []byte{'l'} // after the last key
	}
	cur, err := tx2.Cursor(forward)
	nd.Assert(label+".cursor", err == nil)
	nd.Assert(label+".seek", cur.Seek(target) == nil)
	var got [][]byte
	for steps := 0; cur.Valid() && steps < len(keys)+2; steps++ {
		item, err := cur.Item()
		nd.Assert(label+".item", err == nil)
		got = append(got, item.Key)
		cur.Next()
	}
	cur.Close()
	var exp [][]byte
	if forward {
		for _, k := range want {
			if bytes.Compare(k, target) >= 0 {
				exp = append(exp, k)
			}
		}
	} else {
		for i := len(want) - 1; i >= 0; i-- {
			if bytes.Compare(want[i], target) <= 0 {
				exp = append(exp, want[i])
			}
		}
	}
	same := len(got) == len(exp)
	if same {
		for i := range got {
			if !bytes.Equal(got[i], exp[i]) {
				same = false
			}
		}
	}
	nd.Assert(label+".seek-and-order", same)
	// Get: absent => (nil, nil); present with a non-empty value => that value
	v, gerr := tx2.Get([]byte{'z'})
	nd.Assert(label+".get-absent", gerr == nil && v == nil)
	tx2.Rollback()
	nd.Reach("end")
}

//verif:harness props=C15,C17 tier=quick bounds="real bbolt adapter over the bbolt contract stub: <=2 committed keys (1-2 symbolic bytes, so duplicates and proper-prefix pairs arise; empty or non-empty values) plus optionally one empty-valued key written in the iterating write transaction; seek target symbolic / before the first / after the last key; both directions: lands and iterates exactly per the cursor contract"
func H_C15_cursor_bbolt() {
	cursorContract(openAdapter(0), "C15.bbolt")
}

//verif:harness props=C15,C17 tier=quick bounds="real badger adapter over the badger contract stub: same key sets, targets and directions"
func H_C15_cursor_badger() {
	cursorContract(openAdapter(1), "C15.badger")
}
