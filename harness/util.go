package clover

import "math"

func mathFloat64bits(f float64) uint64 { return math.Float64bits(f) }
