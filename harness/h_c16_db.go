package clover

import (
	"github.com/ostafen/clover/v2/query"
	"github.com/ostafen/clover/v2/zzverif/nd"
	"github.com/ostafen/clover/v2/zzverif/ref"
)

// litKinds: the same number x supplied as each Go numeric kind; canon is its canonical clover value.
func litAs(kind int, x int8) (lit interface{}, canon interface{}) {
	switch kind {
	case 0:
		return int(x), int64(x)
	case 1:
		return x, int64(x)
	case 2:
		return int16(x), int64(x)
	case 3:
		return int32(x), int64(x)
	case 4:
		return int64(x), int64(x)
	case 5:
		return float32(x), float64(x)
	case 6:
		return float64(x), float64(x)
	}
	u := uint8(x) & 0x7f
	switch kind {
	case 7:
		return uint(u), uint64(u)
	case 8:
		return u, uint64(u)
	case 9:
		return uint16(u), uint64(u)
	case 10:
		return uint32(u), uint64(u)
	}
	return uint64(u), uint64(u)
}

//verif:harness props=C16,C01 tier=quick bounds="one document whose field x is int64/uint64/float64 of a symbolic small number or absent; criterion x <op> literal where the literal is the same symbolic number supplied as each of the 12 Go numeric kinds (int..int64, uint..uint64, float32, float64) and as In/Contains list elements: same result as with the canonical literal, and as the documented semantics; through the database (literal normalisation runs)"
func H_C16_literal_kinds() {
	e := openEnv()
	dv := nd.Int8("docval")
	var stored interface{}
	switch nd.Choice("doc.kind", 4) {
	case 0:
		stored = int64(dv)
	case 1:
		stored = uint64(uint8(dv) & 0x7f)
	case 2:
		stored = float64(dv)
	case 3:
		stored = []interface{}{int64(dv)}
	}
	a := buildState(e, stateCfg{nDocs: 1, fields: func(i int) map[string]interface{} { return map[string]interface{}{"x": stored} }})
	lit, canon := litAs(nd.Choice("lit.kind", 12), nd.Int8("lit"))
	op := nd.Choice("op", 8)
	mk := func(v interface{}) *ref.Crit {
		switch op {
		case 6:
			return &ref.Crit{Op: ref.OpIn, Field: "x", Vals: []interface{}{v}}
		case 7:
			return &ref.Crit{Op: ref.OpContains, Field: "x", Vals: []interface{}{v}}
		}
		return &ref.Crit{Op: cmpOps[op], Field: "x", Val: v}
	}
	withLit, err1 := e.db.FindAll(query.NewQuery("c").Where(buildCrit(mk(lit))))
	withCanon, err2 := e.db.FindAll(query.NewQuery("c").Where(buildCrit(mk(canon))))
	nd.Assert("C16.literal-kind.noerr", err1 == nil && err2 == nil)
	nd.Assert("C16.literal-kind.invariant", len(withLit) == len(withCanon))
	nd.Assert("C16.literal-kind.semantics", sameDocSet(withCanon, a.coll("c").matching(mk(canon))))
	nd.Reach("end")
}

var c16dbVal = ref.Opts{Kinds: ref.KNil | ref.KFloat | ref.KString, MaxStr: 1, ConcFloats: true}

//verif:harness props=C16,C01,C02,C20 tier=quick bounds="one document with x and y absent or nil/float{-1.5,0,2.5}/string<=1 (x also an array of one such value for Contains); criterion on x whose operand is Field(y) or \"$y\" - directly or inside an In/Contains list - with and without indexes on x / y: result follows the documented semantics (the operand is read from the document under test; an absent field reads as nil)"
func H_C16_fieldref_db() {
	e := openEnv()
	op := nd.Choice("op", 8)
	fields := func(i int) map[string]interface{} {
		fs := genFields("d", c16dbVal, "x", "y")
		if op == 7 && nd.Choice("x.array", 2) == 1 {
			fs["x"] = []interface{}{ref.Value("d.xe", c16dbVal)}
		}
		return fs
	}
	cfg := stateCfg{nDocs: 1, fields: fields}
	switch nd.Choice("index", 3) {
	case 1:
		cfg.idxField = []string{"x"}
	case 2:
		cfg.idxField = []string{"y"}
	}
	a := buildState(e, cfg)
	operand := ref.FieldRef{Name: "y", Dollar: nd.Choice("dollar", 2) == 1}
	var crit *ref.Crit
	switch op {
	case 6:
		crit = &ref.Crit{Op: ref.OpIn, Field: "x", Vals: []interface{}{operand}}
	case 7:
		crit = &ref.Crit{Op: ref.OpContains, Field: "x", Vals: []interface{}{operand}}
	default:
		crit = &ref.Crit{Op: cmpOps[op], Field: "x", Val: operand}
	}
	checkFindAll(e, a, crit, "C16.fieldref-db")
	nd.Reach("end")
}
