package internal

import (
	"time"

	"github.com/ostafen/clover/v2/zzverif/nd"
	"github.com/ostafen/clover/v2/zzverif/ref"
)

// ---------------- C11: Encode / Decode round trip ----------------

func genLeaf(name string) interface{} {
	switch nd.Choice(name+".leaf", 4) {
	case 0:
		return nd.TimeNanos(name + ".t")
	case 1:
		return nd.Int64(name + ".i")
	case 2:
		return ref.String(name+".s", 1)
	}
	return nil
}

func genTree(name string, depth int) interface{} {
	n := 3
	if depth == 0 {
		n = 1
	}
	switch nd.Choice(name+".node", n) {
	case 1:
		m := map[string]interface{}{}
		if nd.Choice(name+".m.n", 2) == 1 {
			m["k"] = genTree(name+".m", depth-1)
		}
		return m
	case 2:
		k := nd.Choice(name+".a.n", 2)
		a := make([]interface{}, k)
		for i := range a {
			a[i] = genTree(name+".a", depth-1)
		}
		return a
	}
	return genLeaf(name)
}

func copyTree(v interface{}) interface{} {
	switch x := v.(type) {
	case map[string]interface{}:
		m := map[string]interface{}{}
		for k, e := range x {
			m[k] = copyTree(e)
		}
		return m
	case []interface{}:
		a := make([]interface{}, len(x))
		for i, e := range x {
			a[i] = copyTree(e)
		}
		return a
	}
	return v
}

//verif:harness props=C11 tier=quick bounds="document {f: tree} with tree of depth <= 3 built from maps (<=1 key), slices (<=1 element) and leaves time/int64/string<=1/nil with symbolic payloads: Decode(Encode(m)) is deeply equal to m in structure, Go types and values; Encode leaves m unchanged; msgpack itself is an identity stub"
func H_C11_roundtrip() {
	m := map[string]interface{}{"f": genTree("t", 3), "g": nd.TimeNanos("g")}
	orig := copyTree(m).(map[string]interface{})
	data, err := Encode(m)
	nd.Assert("C11.encode-ok", err == nil)
	wrapped := rawTimesSeen() == 0 // a raw time.Time handed to msgpack loses its zone offset
	nd.Assert("C11.encode-does-not-mutate", ref.DeepEqual(m, orig))
	out := map[string]interface{}{}
	err = Decode(data, &out)
	nd.Assert("C11.decode-ok", err == nil)
	nd.Assert("C11.roundtrip", ref.DeepEqual(out, orig) && wrapped)
	nd.Reach("end")
}

// ---------------- C18: normalisation ----------------

type c18Inner struct {
	A int8    `clover:"a"`
	B *uint16 `clover:"b,omitempty"`
	c int
	D []int32
}

type C18Emb struct {
	E float32 `clover:"e"`
}

type c18Outer struct {
	C18Emb
	In   c18Inner          `clover:"in"`
	P    *c18Inner         `clover:"p,omitempty"`
	M    map[string]uint8  `clover:"m"`
	S    string            `clover:",omitempty"`
	T    *time.Time        `clover:"t"`
	Arr  [2]bool
	Any  interface{}
}

func normOK(v interface{}) interface{} {
	r, err := Normalize(v)
	nd.Assert("C18.normalize-ok", err == nil)
	return r
}

func isI64(v interface{}, want int64) bool   { x, ok := v.(int64); return ok && x == want }
func isU64(v interface{}, want uint64) bool  { x, ok := v.(uint64); return ok && x == want }
func isF64(v interface{}, want float64) bool { x, ok := v.(float64); return ok && x == want }

//verif:harness props=C18,C16 tier=quick bounds="every Go integer and float kind at full width, behind 0-2 pointer levels (nil at each level): canonical int64/uint64/float64 with the same numeric value; idempotent"
func H_C18_scalars() {
	var got interface{}
	ok := false
	switch nd.Choice("kind", 12) {
	case 0:
		x := nd.Int("x")
		got, ok = normOK(x), true
		nd.Assert("C18.int", isI64(got, int64(x)))
	case 1:
		x := nd.Int8("x")
		got, ok = normOK(x), true
		nd.Assert("C18.int8", isI64(got, int64(x)))
	case 2:
		x := nd.Int16("x")
		got, ok = normOK(&x), true
		nd.Assert("C18.int16-ptr", isI64(got, int64(x)))
	case 3:
		x := nd.Int32("x")
		p := &x
		got, ok = normOK(&p), true
		nd.Assert("C18.int32-ptrptr", isI64(got, int64(x)))
	case 4:
		x := nd.Int64("x")
		got, ok = normOK(x), true
		nd.Assert("C18.int64", isI64(got, x))
	case 5:
		x := nd.Uint("x")
		got, ok = normOK(x), true
		nd.Assert("C18.uint", isU64(got, uint64(x)))
	case 6:
		x := nd.Uint8("x")
		got, ok = normOK(x), true
		nd.Assert("C18.uint8", isU64(got, uint64(x)))
	case 7:
		x := nd.Uint16("x")
		got, ok = normOK(&x), true
		nd.Assert("C18.uint16-ptr", isU64(got, uint64(x)))
	case 8:
		x := nd.Uint32("x")
		got, ok = normOK(x), true
		nd.Assert("C18.uint32", isU64(got, uint64(x)))
	case 9:
		x := nd.Uint64("x")
		got, ok = normOK(x), true
		nd.Assert("C18.uint64", isU64(got, x))
	case 10:
		x := nd.Float32("x")
		got, ok = normOK(x), true
		nd.Assert("C18.float32", isF64(got, float64(x)))
	case 11:
		x := nd.Float64("x")
		got, ok = normOK(&x), true
		nd.Assert("C18.float64-ptr", isF64(got, x))
	}
	if ok {
		again := normOK(got)
		nd.Assert("C18.idempotent", ref.DeepEqual(again, got))
	}
	nd.Reach("end")
}

//verif:harness props=C18 tier=quick bounds="nil pointers at depth 1-2, pointer to time, bool, string, time: canonical results"
func H_C18_pointers() {
	var pi *int
	var ppi **int
	nd.Assert("C18.nil-ptr", normOK(pi) == nil)
	nd.Assert("C18.nil-ptrptr", normOK(ppi) == nil)
	ppi = &pi
	nd.Assert("C18.ptr-to-nil-ptr", normOK(ppi) == nil)
	t := nd.TimeNanos("t")
	pt := &t
	r := normOK(pt)
	rt, isT := r.(time.Time)
	nd.Assert("C18.ptr-to-time", isT && rt.UnixNano() == t.UnixNano())
	r = normOK(&pt)
	rt, isT = r.(time.Time)
	nd.Assert("C18.ptrptr-to-time", isT && rt.UnixNano() == t.UnixNano())
	b := nd.Bool("b")
	rb, isB := normOK(&b).(bool)
	nd.Assert("C18.bool", isB && rb == b)
	s := ref.String("s", 2)
	rs, isS := normOK(&s).(string)
	nd.Assert("C18.string", isS && rs == s)
	nd.Assert("C18.nil", normOK(nil) == nil)
	nd.Reach("end")
}

//verif:harness props=C18 tier=quick bounds="a struct family with rename, omitempty, embedded, unexported, nested, pointer, map, slice and array fields; symbolic payloads (omitempty forks on zero/non-zero)"
func H_C18_struct() {
	u := nd.Uint16("b")
	var pb *uint16
	if nd.Choice("b.set", 2) == 1 {
		pb = &u
	}
	a := nd.Int8("a")
	e := nd.Float32("e")
	s := ref.String("s", 1)
	m8 := nd.Uint8("m")
	d0 := nd.Int32("d0")
	var tp *time.Time
	tm := nd.TimeNanos("t")
	if nd.Choice("t.set", 2) == 1 {
		tp = &tm
	}
	var p *c18Inner
	if nd.Choice("p.set", 2) == 1 {
		p = &c18Inner{A: 3}
	}
	v := c18Outer{C18Emb: C18Emb{E: e}, In: c18Inner{A: a, B: pb, c: 5, D: []int32{d0}}, P: p, M: map[string]uint8{"k": m8}, S: s, T: tp, Arr: [2]bool{true, false}, Any: int16(7)}
	r := normOK(&v)
	got, isMap := r.(map[string]interface{})
	nd.Assert("C18.struct.is-map", isMap)
	in := map[string]interface{}{"a": int64(a), "D": []interface{}{int64(d0)}}
	if pb != nil && u != 0 {
		in["b"] = uint64(u)
	} else if pb != nil {
		// omitempty looks at the pointer, not the pointee: a non-nil pointer is kept
		in["b"] = uint64(u)
	}
	want := map[string]interface{}{
		"e":   float64(e), // embedded struct is flattened
		"in":  in,
		"m":   map[string]interface{}{"k": uint64(m8)},
		"Arr": []interface{}{true, false},
		"Any": int64(7),
	}
	if p != nil {
		want["p"] = map[string]interface{}{"a": int64(3), "D": []interface{}{}}
	}
	if s != "" {
		want["S"] = s
	}
	if tp != nil {
		want["t"] = tm
	} else {
		want["t"] = nil
	}
	nd.Assert("C18.struct.canonical", ref.DeepEqual(got, want))
	again := normOK(got)
	nd.Assert("C18.struct.idempotent", ref.DeepEqual(again, got))
	nd.Reach("end")
}

//verif:harness props=C18 tier=quick bounds="unsupported values (chan, func, map with non-string keys, struct holding one) are rejected by Normalize"
func H_C18_unsupported() {
	var err error
	switch nd.Choice("kind", 4) {
	case 0:
		_, err = Normalize(make(chan int))
	case 1:
		_, err = Normalize(func() {})
	case 2:
		_, err = Normalize(map[int]string{1: "a"})
	case 3:
		_, err = Normalize(struct{ F func() }{})
	}
	nd.Assert("C18.unsupported-rejected", err != nil)
	nd.Reach("end")
}
