package internal

// natively the real msgpack codec runs; the zone offset itself is compared by the replayed round trip
func rawTimesSeen() int { return 0 }
