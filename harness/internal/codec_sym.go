package internal

import "github.com/ostafen/clover/v2/zzverif/codec"

func init() {
	// msgpack ext 1 decodes to a fresh *LocalizedTime (observed on the real library)
	codec.CopyLeaf = func(v interface{}) (interface{}, bool) {
		if lt, ok := v.(*LocalizedTime); ok {
			return &LocalizedTime{lt.Time}, true
		}
		return nil, false
	}
}

func rawTimesSeen() int { return codec.RawTimes }
