package internal

import (
	"github.com/ostafen/clover/v2/zzverif/nd"
)

func sgn(x int) int {
	if x < 0 {
		return -1
	}
	if x > 0 {
		return 1
	}
	return 0
}

// refCmpII etc: the documented numeric order, written without subtraction.
func refCmpI64(a, b int64) int {
	if a < b {
		return -1
	}
	if a > b {
		return 1
	}
	return 0
}

func refCmpU64(a, b uint64) int {
	if a < b {
		return -1
	}
	if a > b {
		return 1
	}
	return 0
}

func refCmpIU(a int64, b uint64) int {
	if a < 0 {
		return -1
	}
	return refCmpU64(uint64(a), b)
}

func refCmpF64(a, b float64) int {
	if a < b {
		return -1
	}
	if a > b {
		return 1
	}
	return 0
}

//verif:harness props=C10 tier=quick bounds="all int64 x int64 pairs (full 64-bit width)"
func H_C10_num_sign_ii() {
	a, b := nd.Int64("a"), nd.Int64("b")
	nd.Assert("C10.sign.int64-int64", sgn(Compare(a, b)) == refCmpI64(a, b))
	nd.Reach("end")
}

//verif:harness props=C10 tier=quick bounds="all uint64 x uint64 pairs (full 64-bit width)"
func H_C10_num_sign_uu() {
	a, b := nd.Uint64("a"), nd.Uint64("b")
	nd.Assert("C10.sign.uint64-uint64", sgn(Compare(a, b)) == refCmpU64(a, b))
	nd.Reach("end")
}

//verif:harness props=C10 tier=quick bounds="all int64 x uint64 pairs, both argument orders (full 64-bit width)"
func H_C10_num_sign_iu() {
	a, b := nd.Int64("a"), nd.Uint64("b")
	nd.Assert("C10.sign.int64-uint64", sgn(Compare(a, b)) == refCmpIU(a, b))
	nd.Assert("C10.sign.uint64-int64", sgn(Compare(b, a)) == -refCmpIU(a, b))
	nd.Reach("end")
}

//verif:harness props=C10 tier=quick bounds="all non-NaN float64 x float64 pairs (incl. +-Inf, -0.0, subnormals)"
func H_C10_num_sign_ff() {
	a, b := nd.Float64("a"), nd.Float64("b")
	nd.Assert("C10.sign.float64-float64", sgn(Compare(a, b)) == refCmpF64(a, b))
	nd.Reach("end")
}

//verif:harness props=C10 tier=quick bounds="int64 within +-2^53 x all non-NaN float64, both orders"
func H_C10_num_sign_if() {
	a, b := nd.Int64("a"), nd.Float64("b")
	nd.Assume(a >= -(1<<53) && a <= (1<<53))
	nd.Assert("C10.sign.int64-float64", sgn(Compare(a, b)) == refCmpF64(float64(a), b))
	nd.Assert("C10.sign.float64-int64", sgn(Compare(b, a)) == refCmpF64(b, float64(a)))
	nd.Reach("end")
}

//verif:harness props=C10 tier=quick bounds="uint64 <= 2^53 x all non-NaN float64, both orders"
func H_C10_num_sign_uf() {
	a, b := nd.Uint64("a"), nd.Float64("b")
	nd.Assume(a <= (1 << 53))
	nd.Assert("C10.sign.uint64-float64", sgn(Compare(a, b)) == refCmpF64(float64(a), b))
	nd.Assert("C10.sign.float64-uint64", sgn(Compare(b, a)) == refCmpF64(b, float64(a)))
	nd.Reach("end")
}

//verif:harness props=C10 tier=quick bounds="all pairs of instants with int64 UnixNano"
func H_C10_time_sign() {
	a, b := nd.TimeNanos("a"), nd.TimeNanos("b")
	nd.Assert("C10.sign.time-time", sgn(Compare(a, b)) == refCmpI64(a.UnixNano(), b.UnixNano()))
	nd.Reach("end")
}

//verif:harness props=C10 tier=quick expect=violation bounds="vacuity twin"
func H_C10_num_sign_twin() {
	a, b := nd.Int64("a"), nd.Int64("b")
	_ = Compare(a, b)
	nd.Assert("C10.twin.false", false)
}
