package internal

import (
	"github.com/ostafen/clover/v2/zzverif/nd"
	"github.com/ostafen/clover/v2/zzverif/ref"
)

var c10Prim = ref.Opts{Kinds: ref.KPrim, MaxStr: 2, IntSafe: true}

//verif:harness props=C10 tier=quick bounds="two values of any primitive kind (nil,int64,uint64,float64,string<=2 bytes,bool,time); ints within 2^53 when mixed with floats; full sign agreement with the reference order incl. cross-rank"
func H_C10_prim_vs_ref() {
	a := ref.Value("a", c10Prim)
	b := ref.Value("b", c10Prim)
	nd.Assert("C10.sign.prim", sgn(Compare(a, b)) == ref.Compare(a, b))
	nd.Reach("end")
}

//verif:harness props=C10 tier=quick bounds="strings up to 3 symbolic bytes each (0x00 and 0xFF included)"
func H_C10_strings() {
	a := ref.String("a", 3)
	b := ref.String("b", 3)
	nd.Assert("C10.sign.string", sgn(Compare(a, b)) == ref.Compare(a, b))
	nd.Reach("end")
}

var c10Cont = ref.Opts{Kinds: ref.KArray | ref.KObject | ref.KNil | ref.KFloat | ref.KString, ElemKinds: ref.KNil | ref.KFloat | ref.KString | ref.KBool | ref.KInt,
	MaxStr: 1, MaxElems: 2, SmallInts: true}

//verif:harness props=C10 tier=thorough bounds="arrays and objects (keys from {a,ab,b}) with <=2 elements of kinds nil/float64/string<=1/bool/int64(boundary set), plus nil/float/string at top level: sign agreement with the reference order"
func H_C10_containers_vs_ref() {
	a := ref.Value("a", c10Cont)
	b := ref.Value("b", c10Cont)
	nd.Assert("C10.sign.container", sgn(Compare(a, b)) == ref.Compare(a, b))
	nd.Reach("end")
}

var c10Cont1 = ref.Opts{Kinds: ref.KArray | ref.KObject | ref.KFloat, ElemKinds: ref.KNil | ref.KFloat | ref.KString | ref.KBool,
	MaxStr: 1, MaxElems: 1}

//verif:harness props=C10 tier=quick bounds="arrays and objects with <=1 element of kinds nil/float64/string<=1/bool, plus float at top level"
func H_C10_containers1_vs_ref() {
	a := ref.Value("a", c10Cont1)
	b := ref.Value("b", c10Cont1)
	nd.Assert("C10.sign.container", sgn(Compare(a, b)) == ref.Compare(a, b))
	nd.Reach("end")
}

var c10Law = ref.Opts{Kinds: ref.KNil | ref.KInt | ref.KUint | ref.KFloat | ref.KString | ref.KBool | ref.KTime, MaxStr: 1, IntSafe: true}

//verif:harness props=C10 tier=quick bounds="preorder laws on pairs of primitives (ints within 2^53): reflexive, sign-antisymmetric"
func H_C10_laws2() {
	a := ref.Value("a", c10Law)
	b := ref.Value("b", c10Law)
	nd.Assert("C10.refl", Compare(a, a) == 0)
	nd.Assert("C10.antisym", sgn(Compare(a, b)) == -sgn(Compare(b, a)))
	nd.Reach("end")
}

var c10Law3 = ref.Opts{Kinds: ref.KNil | ref.KInt | ref.KUint | ref.KFloat | ref.KString | ref.KBool, MaxStr: 1, SmallInts: true}

//verif:harness props=C10 tier=thorough bounds="transitivity on triples of primitives nil/int64,uint64 (boundary set {-1,0,1,2,2^53})/float64 (symbolic)/string<=1/bool; full-width integer triples are H_C10_trans3_int, and sign agreement of every pair with the reference order (which is transitive) is decided at full width by the num_sign harnesses"
func H_C10_trans3() {
	a := ref.Value("a", c10Law3)
	b := ref.Value("b", c10Law3)
	c := ref.Value("c", c10Law3)
	if Compare(a, b) <= 0 && Compare(b, c) <= 0 {
		nd.Assert("C10.trans", Compare(a, c) <= 0)
		nd.Reach("premise")
	}
	nd.Reach("end")
}

//verif:harness props=C10 tier=quick bounds="transitivity on triples of full-width int64/uint64 mixes"
func H_C10_trans3_int() {
	mk := func(n string) interface{} {
		if nd.Choice(n+".k", 2) == 0 {
			return nd.Int64(n)
		}
		return nd.Uint64(n)
	}
	a, b, c := mk("a"), mk("b"), mk("c")
	if Compare(a, b) <= 0 && Compare(b, c) <= 0 {
		nd.Assert("C10.trans.int", Compare(a, c) <= 0)
		nd.Reach("premise")
	}
	nd.Reach("end")
}
