package index

import (
	"github.com/ostafen/clover/v2/zzverif/nd"
	"github.com/ostafen/clover/v2/zzverif/ref"
)

func genRange(name string, o ref.Opts) (*Range, ref.Rng) {
	var r ref.Rng
	if nd.Choice(name+".hasStart", 2) == 1 {
		r.Start = ref.Value(name+".start", o)
	}
	if nd.Choice(name+".hasEnd", 2) == 1 {
		r.End = ref.Value(name+".end", o)
	}
	r.StartIncluded = nd.Bool(name + ".si")
	r.EndIncluded = nd.Bool(name + ".ei")
	nd.Assume(r.InDomain())
	return &Range{Start: r.Start, End: r.End, StartIncluded: r.StartIncluded, EndIncluded: r.EndIncluded}, r
}

func toRef(r *Range) ref.Rng {
	return ref.Rng{Start: r.Start, End: r.End, StartIncluded: r.StartIncluded, EndIncluded: r.EndIncluded}
}

var c17Bound = ref.Opts{Kinds: ref.KFloat | ref.KString, MaxStr: 1}
var c17Val = ref.Opts{Kinds: ref.KNil | ref.KFloat | ref.KString | ref.KBool, MaxStr: 1}

//verif:harness props=C17 tier=quick bounds="one range: each bound nil or float64/string<=1, both inclusion flags symbolic, domain = >=1 non-nil bound or the nil-only range; v = nil/float64/string<=1/bool"
func H_C17_empty_sound() {
	r, rr := genRange("r", c17Bound)
	v := ref.Value("v", c17Val)
	if r.IsEmpty() {
		nd.Assert("C17.empty-sound", !ref.InRange(rr, v))
		nd.Reach("empty")
	}
	nd.Reach("end")
}

//verif:harness props=C17 tier=quick bounds="two ranges as above (float64 bounds only in quick), v = nil/float64/bool: a value in both ranges is in their intersection, and the intersection is not reported empty"
func H_C17_intersect_sound() {
	o := ref.Opts{Kinds: ref.KFloat}
	r1, rr1 := genRange("r1", o)
	r2, rr2 := genRange("r2", o)
	v := ref.Value("v", ref.Opts{Kinds: ref.KNil | ref.KFloat | ref.KBool})
	if ref.InRange(rr1, v) && ref.InRange(rr2, v) {
		in := r1.Intersect(r2)
		nd.Assert("C17.intersect-sound", ref.InRange(toRef(in), v))
		nd.Assert("C17.intersect-nonempty", !in.IsEmpty())
		nd.Reach("both")
	}
	nd.Reach("end")
}

//verif:harness props=C17 tier=thorough bounds="two ranges with bounds nil or float64/string<=1 (mixed ranks), v = nil/float64/string<=1/bool"
func H_C17_intersect_sound_mixed() {
	r1, rr1 := genRange("r1", c17Bound)
	r2, rr2 := genRange("r2", c17Bound)
	v := ref.Value("v", c17Val)
	if ref.InRange(rr1, v) && ref.InRange(rr2, v) {
		in := r1.Intersect(r2)
		nd.Assert("C17.intersect-sound", ref.InRange(toRef(in), v))
		nd.Assert("C17.intersect-nonempty", !in.IsEmpty())
		nd.Reach("both")
	}
	nd.Reach("end")
}
