package index

import (
	"github.com/ostafen/clover/v2/store"
	"github.com/ostafen/clover/v2/zzverif/nd"
	"github.com/ostafen/clover/v2/zzverif/ref"
)

// recTx records the keys written through the store.Tx interface.
type recTx struct {
	sets [][]byte
	dels [][]byte
}

func (t *recTx) Set(key, value []byte) error {
	t.sets = append(t.sets, append([]byte(nil), key...))
	return nil
}
func (t *recTx) Get(key []byte) ([]byte, error)            { return nil, nil }
func (t *recTx) Delete(key []byte) error                   { t.dels = append(t.dels, append([]byte(nil), key...)); return nil }
func (t *recTx) Cursor(forward bool) (store.Cursor, error) { return nil, nil }
func (t *recTx) Commit() error                             { return nil }
func (t *recTx) Rollback() error                           { return nil }

const keyTestId = "00000000-0000-4000-8000-000000000001"

// indexKey returns the key (without the trailing document id) under which the
// exported index API stores v.
func indexKey(v interface{}) []byte {
	tx := &recTx{}
	idx := CreateIndex("c", "f", SingleField, tx)
	err := idx.Add(keyTestId, v, -1)
	nd.Assert("C10.key.add-ok", err == nil && len(tx.sets) == 1)
	k := tx.sets[0]
	nd.Assert("C10.key.id-suffix", len(k) >= 36 && string(k[len(k)-36:]) == keyTestId)
	return k[:len(k)-36]
}

func keyAgree(a, b interface{}, label string) {
	ka, kb := indexKey(a), indexKey(b)
	want := ref.Compare(a, b)
	nd.Assert("C10.key-order."+label, ref.CmpBytes(ka, kb) == want)
	if want == 0 {
		nd.Assert("C10.key-eq."+label, string(ka) == string(kb))
	} else {
		// neither key may be a prefix of the other: the 36-byte id follows the value
		nd.Assert("C10.key-prefixfree."+label, !ref.IsPrefix(ka, kb) && !ref.IsPrefix(kb, ka))
	}
	nd.Reach("end")
}

//verif:harness props=C10 tier=quick bounds="index keys of two non-NaN float64 (all bit patterns incl. -0.0, +-Inf, subnormals)"
func H_C10_key_ff() {
	keyAgree(nd.Float64("a"), nd.Float64("b"), "float")
}

//verif:harness props=C10 tier=quick bounds="index keys of two strings up to 2 symbolic bytes (0x00/0xFF escapes, prefix pairs)"
func H_C10_key_ss() {
	keyAgree(ref.String("a", 2), ref.String("b", 2), "string")
}

//verif:harness props=C10 tier=thorough bounds="index keys of two strings up to 3 symbolic bytes"
func H_C10_key_ss3() {
	keyAgree(ref.String("a", 3), ref.String("b", 3), "string")
}

//verif:harness props=C10 tier=quick bounds="index keys of two times with UnixNano >= 0 (1970..2262), and of bools and nil"
func H_C10_key_time_bool() {
	o := ref.Opts{Kinds: ref.KTime | ref.KBool | ref.KNil, TimeKey: true}
	keyAgree(ref.Value("a", o), ref.Value("b", o), "time-bool-nil")
}

//verif:harness props=C10 tier=quick bounds="index keys across ranks: any two of nil,float64,string<=1,bool,time>=1970,int64 from boundary set; rank digit decides"
func H_C10_key_cross() {
	o := ref.Opts{Kinds: ref.KNil | ref.KFloat | ref.KString | ref.KBool | ref.KTime | ref.KInt, MaxStr: 1, TimeKey: true, SmallInts: true}
	keyAgree(ref.Value("a", o), ref.Value("b", o), "cross")
}

//verif:harness props=C10 tier=thorough bounds="index keys of int64/uint64 within 2^53 and float64, all kind pairs (the property's stated key domain for numbers)"
func H_C10_key_num() {
	o := ref.Opts{Kinds: ref.KInt | ref.KUint | ref.KFloat, IntSafe: true}
	keyAgree(ref.Value("a", o), ref.Value("b", o), "number")
}

//verif:harness props=C10 tier=thorough bounds="index keys of int64 within 2^53 against int64 within 2^53 (goes through the int->float64 key conversion)"
func H_C10_key_ii() {
	a, b := nd.Int64("a"), nd.Int64("b")
	nd.Assume(a >= -(1<<53) && a <= (1<<53) && b >= -(1<<53) && b <= (1<<53))
	keyAgree(a, b, "int")
}

//verif:harness props=C10 tier=thorough bounds="index keys of arrays/objects with <=2 elements (nil, float from {-1.5,0,2.5}, string<=1 symbolic byte, symbolic bool) and such floats / nil at top level"
func H_C10_key_containers() {
	o := ref.Opts{Kinds: ref.KArray | ref.KObject | ref.KFloat | ref.KNil, ElemKinds: ref.KNil | ref.KFloat | ref.KString | ref.KBool, MaxStr: 1, MaxElems: 2, FloatNormal: true, ElemConc: true}
	keyAgree(ref.Value("a", o), ref.Value("b", o), "container")
}

//verif:harness props=C10 tier=quick bounds="index keys of arrays and objects with <=2 elements from {nil, 0.0, symbolic bool}: empty vs [nil], [v] vs [v,nil], nil members inside containers; key order = reference order, equal iff equal, prefix-free"
func H_C10_key_containers_small() {
	o := ref.Opts{Kinds: ref.KArray | ref.KObject, ElemKinds: ref.KNil | ref.KFloat | ref.KBool, ConcFloats: true, OneFloat: true, MaxElems: 2}
	keyAgree(ref.Value("a", o), ref.Value("b", o), "container-small")
}
