package index

import (
	"github.com/ostafen/clover/v2/internal"
	"github.com/ostafen/clover/v2/zzverif/memstore"
	"github.com/ostafen/clover/v2/zzverif/nd"
	"github.com/ostafen/clover/v2/zzverif/ref"
)

var scanIds = []string{
	"00000000-0000-4000-8000-000000000001",
	"00000000-0000-4000-8000-000000000002",
	"00000000-0000-4000-8000-000000000003",
}

type entry struct {
	id string
	v  interface{}
}

// entryLess orders entries by (value, id) under the reference order.
func entryLess(a, b entry) bool {
	c := ref.Compare(a.v, b.v)
	if c != 0 {
		return c < 0
	}
	return a.id < b.id
}

// expectedScan: entries in range, ascending by (value,id) or descending when reversed.
func expectedScan(es []entry, r *ref.Rng, reverse bool) []string {
	var in []entry
	for _, e := range es {
		if r == nil || ref.InRange(*r, e.v) {
			in = append(in, e)
		}
	}
	for i := 1; i < len(in); i++ {
		for j := i; j > 0 && entryLess(in[j], in[j-1]); j-- {
			in[j], in[j-1] = in[j-1], in[j]
		}
	}
	out := make([]string, len(in))
	for i, e := range in {
		if reverse {
			out[len(in)-1-i] = e.id
		} else {
			out[i] = e.id
		}
	}
	return out
}

func sameIds(a, b []string) bool {
	if len(a) != len(b) {
		return false
	}
	for i := range a {
		if a[i] != b[i] {
			return false
		}
	}
	return true
}

// scanSetup builds an index over n entries inside a write transaction of the reference store.
func scanSetup(n int, o ref.Opts, extraIndex bool) (RangeIndex, []entry) {
	st := memstore.New()
	tx, _ := st.Begin(true)
	idx := CreateIndex("c", "f", SingleField, tx).(RangeIndex)
	var es []entry
	// ids are attached in a chosen order so that ties are exercised in both id orders
	perm := nd.Choice("idorder", 2)
	for i := 0; i < n; i++ {
		id := scanIds[i]
		if perm == 1 {
			id = scanIds[n-1-i]
		}
		v := ref.Value("e", o)
		err := idx.Add(id, v, -1)
		nd.Assert("C17.add-ok", err == nil)
		es = append(es, entry{id, v})
	}
	if extraIndex {
		// a sibling index on a field whose name extends "f", and documents of the collection
		sib := CreateIndex("c", "fz", SingleField, tx)
		sib.Add(scanIds[0], "q", -1)
		tx.Set([]byte("c:c;d:"+scanIds[0]), []byte{1})
	}
	return idx, es
}

func runScan(idx RangeIndex, r *Range, reverse bool, stopAfter int) ([]string, error) {
	var got []string
	cb := func(id string) error {
		got = append(got, id)
		if len(got) == stopAfter {
			return internal.ErrStopIteration
		}
		return nil
	}
	var err error
	if r == nil {
		err = idx.Iterate(reverse, cb)
	} else {
		err = idx.IterateRange(r, reverse, cb)
	}
	return got, err
}

func checkScanOpt(n int, eo, bo ref.Opts, full bool, stops bool) {
	idx, es := scanSetup(n, eo, false)
	reverse := nd.Bool("reverse")
	stop := 0
	if stops {
		stop = nd.Choice("stop", n+2) // 0 = never stop, k = stop after k results
	}
	var r *Range
	var rr *ref.Rng
	if !full {
		var x ref.Rng
		r, x = genRange("r", bo)
		rr = &x
	}
	got, err := runScan(idx, r, reverse, stop)
	want := expectedScan(es, rr, reverse)
	if stop > 0 && len(want) > stop {
		want = want[:stop]
	}
	nd.Assert("C17.scan-noerr", err == nil)
	nd.Assert("C17.scan-exact", sameIds(got, want))
	nd.Reach("end")
}

var c17Entry = ref.Opts{Kinds: ref.KNil | ref.KFloat | ref.KString | ref.KBool, MaxStr: 1, FloatNormal: true}
var c17Entry2 = ref.Opts{Kinds: ref.KNil | ref.KFloat | ref.KString, MaxStr: 1, FloatNormal: true}
var c17ScanBound = ref.Opts{Kinds: ref.KFloat | ref.KString, MaxStr: 1, FloatNormal: true}
var c17NumEntry = ref.Opts{Kinds: ref.KNil | ref.KFloat, FloatNormal: true}
var c17NumBound = ref.Opts{Kinds: ref.KFloat, FloatNormal: true}

var c17StrBound = ref.Opts{Kinds: ref.KString, MaxStr: 1}
var c17StrEntry = ref.Opts{Kinds: ref.KNil | ref.KString | ref.KFloat, MaxStr: 1, ConcFloats: true}
var c17ConcEntry = ref.Opts{Kinds: ref.KNil | ref.KFloat | ref.KBool, ConcFloats: true}
var c17ConcBound = ref.Opts{Kinds: ref.KFloat, ConcFloats: true}

//verif:harness props=C17,C08 tier=quick bounds="index of 1 entry (nil/float64 (0 or |x|>=2^-1000)/string<=1/bool), float64 range bounds or open ends with symbolic inclusion flags (domain: >=1 non-nil bound or nil-only), both directions; reference store"
func H_C17_scan1_num() {
	checkScanOpt(1, c17Entry, c17NumBound, false, false)
}

//verif:harness props=C17 tier=quick bounds="index of 1 entry (nil/string<=1 symbolic byte/float from {-1.5,0,2.5}), string<=1 range bounds or open ends, symbolic inclusion flags, both directions"
func H_C17_scan1_str() {
	checkScanOpt(1, c17StrEntry, c17StrBound, false, false)
}

//verif:harness props=C17,C08 tier=quick bounds="index of 3 entries (nil/bool/float from {-1.5,0,2.5}; duplicates, both id orders), range bounds from the same float set or open, symbolic inclusion flags, both directions, consumer stop after k in 0..4"
func H_C17_scan3_conc() {
	checkScanOpt(3, c17ConcEntry, c17ConcBound, false, true)
}

//verif:harness props=C17,C08 tier=thorough bounds="index of 2 entries (nil/float64 (0 or |x|>=2^-1000); duplicates and both id orders arise), float64 range bounds or open ends, symbolic inclusion flags, both directions"
func H_C17_scan2_num() {
	checkScanOpt(2, c17NumEntry, c17NumBound, false, false)
}

//verif:harness props=C17 tier=thorough bounds="index of 2 entries (nil/float64/string<=1), range bounds nil or float64/string<=1 (mixed ranks), flags, both directions"
func H_C17_scan2() {
	checkScanOpt(2, c17Entry2, c17ScanBound, false, false)
}

//verif:harness props=C17 tier=quick bounds="full iteration of an index of 2 entries (nil/float64/string<=1/bool), both directions, consumer stop after k in 0..3"
func H_C17_iterate2() {
	checkScanOpt(2, c17Entry, c17ScanBound, true, true)
}

//verif:harness props=C17 tier=thorough bounds="full iteration of an index of 3 entries (nil/float64/string<=1/bool), both directions, consumer stop after k"
func H_C17_iterate3() {
	checkScanOpt(3, c17Entry, c17ScanBound, true, true)
}

// (not registered: 3 symbolic entries x symbolic range costs > 10 min on 16 cores; 3-entry order is covered by H_C17_iterate3 and H_C17_scan3_conc)
func H_C17_scan3() {
	idx, es := scanSetup(3, c17NumEntry, false)
	reverse := nd.Bool("reverse")
	var x ref.Rng
	if nd.Choice("side", 2) == 0 {
		x.Start = ref.Value("r.start", c17NumBound)
		x.StartIncluded = nd.Bool("r.si")
	} else {
		x.End = ref.Value("r.end", c17NumBound)
		x.EndIncluded = nd.Bool("r.ei")
	}
	r := &Range{Start: x.Start, End: x.End, StartIncluded: x.StartIncluded, EndIncluded: x.EndIncluded}
	got, err := runScan(idx, r, reverse, 0)
	nd.Assert("C17.scan-noerr", err == nil)
	nd.Assert("C17.scan-exact", sameIds(got, expectedScan(es, &x, reverse)))
	nd.Reach("end")
}

//verif:harness props=C17,C14,C06 tier=quick bounds="full and ranged scans of index f in the presence of a sibling index fz (name extends f) and document records of the same collection: only f's entries are yielded"
func H_C17_scan_sibling() {
	idx, es := scanSetup(1, ref.Opts{Kinds: ref.KNil | ref.KFloat | ref.KString, MaxStr: 1, FloatNormal: true}, true)
	reverse := nd.Bool("reverse")
	got, err := runScan(idx, nil, reverse, 0)
	nd.Assert("C17.sibling.iterate", err == nil && sameIds(got, expectedScan(es, nil, reverse)))
	r, rr := genRange("r", c17ScanBound)
	got, err = runScan(idx, r, reverse, 0)
	nd.Assert("C17.sibling.range", err == nil && sameIds(got, expectedScan(es, &rr, reverse)))
	nd.Reach("end")
}
