package clover

import (
	d "github.com/ostafen/clover/v2/document"
	"github.com/ostafen/clover/v2/query"
	"github.com/ostafen/clover/v2/zzverif/nd"
	"github.com/ostafen/clover/v2/zzverif/ref"
)

//verif:harness props=C03,C06,C02,C08 tier=quick bounds="3 documents with distinct keys x in {-1.5, 0, 2.5} (any insertion order) plus one without x; query = optional criteria x >= symbolic literal, sort on x with symbolic direction, symbolic skip and limit (any int); index none / on x; Delete, Update and UpdateFunc touch exactly the documents FindAll(q) returned on the pre-state, the callback runs once per document on its pre-call value, everything else is untouched; audit"
func H_C03_windowed_bulk() {
	e := openEnv()
	order := [][]float64{{-1.5, 0, 2.5}, {2.5, -1.5, 0}, {0, 2.5, -1.5}}[nd.Choice("order", 3)]
	cfg := stateCfg{nDocs: 4, fields: func(i int) map[string]interface{} {
		if i == 3 {
			return map[string]interface{}{"y": 1.0}
		}
		return map[string]interface{}{"x": order[i], "y": 1.0}
	}}
	if nd.Choice("index", 2) == 1 {
		cfg.idxField = []string{"x"}
	}
	a := buildState(e, cfg)
	c := a.coll("c")
	q := query.NewQuery("c")
	if nd.Choice("criteria", 2) == 1 {
		q = q.Where(query.Field("x").GtEq(nd.Float64("lit")))
	}
	if nd.Choice("sorted", 2) == 1 {
		q = q.Sort(query.SortOption{Field: "x", Direction: nd.Int("dir")})
	} else {
		q = q.Sort() // by _id: deterministic window
	}
	q = q.Skip(nd.Int("skip")).Limit(nd.Int("limit"))
	// the selection, as FindAll returns it immediately before the call
	sel, err := e.db.FindAll(q)
	nd.Assert("C03.window.select-ok", err == nil)
	selected := map[string]bool{}
	for _, s := range sel {
		selected[s.ObjectId()] = true
	}
	switch nd.Choice("op", 3) {
	case 0:
		nd.Assert("C03.window.delete-ok", e.db.Delete(q) == nil)
		var rest []*absDoc
		for _, x := range c.docs {
			if !selected[x.id] {
				rest = append(rest, x)
			}
		}
		c.docs = rest
	case 1:
		nd.Assert("C03.window.update-ok", e.db.Update(q, map[string]interface{}{"x": 7.0, "z": true}) == nil)
		for _, x := range c.docs {
			if selected[x.id] {
				x.fields["x"] = 7.0
				x.fields["z"] = true
			}
		}
	case 2:
		calls := map[string]int{}
		pre := true
		err := e.db.UpdateFunc(q, func(doc *d.Document) *d.Document {
			calls[doc.ObjectId()]++
			if x := c.doc(doc.ObjectId()); x == nil || !ref.DeepEqual(doc.ToMap(), x.fields) {
				pre = false
			}
			n := doc.Copy()
			n.Set("x", 9.0)
			return n
		})
		nd.Assert("C03.window.updatefunc-ok", err == nil && pre)
		total := 0
		for _, n := range calls {
			total += n
		}
		nd.Assert("C03.window.updatefunc-once-each", total == len(sel))
		for _, x := range c.docs {
			if selected[x.id] {
				nd.Assert("C03.window.updatefunc-on-selected", calls[x.id] == 1)
				x.fields["x"] = 9.0
			}
		}
	}
	all, err := e.db.FindAll(query.NewQuery("c"))
	nd.Assert("C03.window.touched-exactly-the-selection", err == nil && sameDocSet(all, c.docs))
	audit("C06.window", e.ms, a)
	nd.Reach("end")
}
