package clover

import (
	"github.com/ostafen/clover/v2/query"
	"github.com/ostafen/clover/v2/zzverif/nd"
	"github.com/ostafen/clover/v2/zzverif/ref"
)

// field generators -----------------------------------------------------------

// fieldX: x absent or a value of the given kinds.
func genFields(name string, o ref.Opts, names ...string) map[string]interface{} {
	m := map[string]interface{}{}
	for _, f := range names {
		if nd.Choice(name+"."+f+".present", 2) == 1 {
			m[f] = ref.Value(name+"."+f, o)
		}
	}
	return m
}

var cmpOps = []int{ref.OpEq, ref.OpNeq, ref.OpGt, ref.OpGtEq, ref.OpLt, ref.OpLtEq}

func genCmpLeaf(name, field string, o ref.Opts) *ref.Crit {
	return &ref.Crit{Op: cmpOps[nd.Choice(name+".op", len(cmpOps))], Field: field, Val: ref.Value(name+".v", o)}
}

func checkFindAll(e *env, a *absDB, crit *ref.Crit, label string) {
	q := query.NewQuery("c").Where(buildCrit(crit))
	docs, err := e.db.FindAll(q)
	nd.Assert(label+".noerr", err == nil)
	nd.Assert(label+".exact", sameDocSet(docs, a.coll("c").matching(crit)))
}

var qNum = ref.Opts{Kinds: ref.KNil | ref.KFloat, FloatNormal: true}
var qNumLit = ref.Opts{Kinds: ref.KFloat, FloatNormal: true}

//verif:harness props=C01,C02 tier=quick bounds="collection of 2 documents, field x absent/nil/float64 (0 or |x|>=2^-1000); criterion x <op> literal for op in Eq,Neq,Gt,GtEq,Lt,LtEq with a float64 literal; index on x absent, created before, or created after the data; FindAll compared with the documented semantics"
func H_C01_cmp_num() {
	e := openEnv()
	withIdx := nd.Choice("index.x", 2) == 1
	cfg := stateCfg{nDocs: 2, fields: func(i int) map[string]interface{} { return genFields("d", qNum, "x") }}
	if withIdx {
		cfg.idxField = []string{"x"}
	}
	a := buildState(e, cfg)
	checkFindAll(e, a, genCmpLeaf("c", "x", qNumLit), "C01.cmp")
	nd.Reach("end")
}
