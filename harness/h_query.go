package clover

import (
	d "github.com/ostafen/clover/v2/document"
	"github.com/ostafen/clover/v2/query"
	"github.com/ostafen/clover/v2/zzverif/nd"
	"github.com/ostafen/clover/v2/zzverif/ref"
)

// field generators -----------------------------------------------------------

// fieldX: x absent or a value of the given kinds.
func genFields(name string, o ref.Opts, names ...string) map[string]interface{} {
	m := map[string]interface{}{}
	for _, f := range names {
		if nd.Choice(name+"."+f+".present", 2) == 1 {
			m[f] = ref.Value(name+"."+f, o)
		}
	}
	return m
}

var cmpOps = []int{ref.OpEq, ref.OpNeq, ref.OpGt, ref.OpGtEq, ref.OpLt, ref.OpLtEq}

func genCmpLeaf(name, field string, o ref.Opts) *ref.Crit {
	return &ref.Crit{Op: cmpOps[nd.Choice(name+".op", len(cmpOps))], Field: field, Val: ref.Value(name+".v", o)}
}

func checkFindAll(e *env, a *absDB, crit *ref.Crit, label string) {
	q := query.NewQuery("c").Where(buildCrit(crit))
	docs, err := e.db.FindAll(q)
	nd.Assert(label+".noerr", err == nil)
	nd.Assert(label+".exact", sameDocSet(docs, a.coll("c").matching(crit)))
}

var qNum = ref.Opts{Kinds: ref.KNil | ref.KFloat, FloatNormal: true}
var qNumLit = ref.Opts{Kinds: ref.KFloat, FloatNormal: true}

//verif:harness props=C01,C02 tier=quick bounds="collection of 2 documents, field x absent/nil/float64 (0 or |x|>=2^-1000); criterion x <op> literal for op in Eq,Neq,Gt,GtEq,Lt,LtEq with a float64 literal; index on x absent, created before, or created after the data; FindAll compared with the documented semantics"
func H_C01_cmp_num() {
	e := openEnv()
	withIdx := nd.Choice("index.x", 2) == 1
	cfg := stateCfg{nDocs: 2, fields: func(i int) map[string]interface{} { return genFields("d", qNum, "x") }}
	if withIdx {
		cfg.idxField = []string{"x"}
	}
	a := buildState(e, cfg)
	checkFindAll(e, a, genCmpLeaf("c", "x", qNumLit), "C01.cmp")
	nd.Reach("end")
}

//verif:harness props=C01,C06,C02 tier=quick bounds="history of length 2: a 2-document collection (first: x absent/nil/-1.5, second: x=0) with or without an index on x created before or after the data, then one write that changes x of the first document (UpdateById, Update by criteria, ReplaceById, Save, DeleteById+Insert) to a symbolic float64 or removes the field, then FindAll with a comparison on x (symbolic literal) and a sort on x: every live matching document exactly once, with the values last written"
func H_C01_after_write() {
	e := openEnv()
	cfg := stateCfg{nDocs: 2, fields: func(i int) map[string]interface{} {
		if i == 1 {
			return map[string]interface{}{"x": 0.0}
		}
		return cloneFields([]map[string]interface{}{{}, {"x": nil}, {"x": -1.5}}[nd.Choice("d0.x", 3)])
	}}
	if nd.Choice("index.x", 2) == 1 {
		cfg.idxField = []string{"x"}
	}
	a := buildState(e, cfg)
	c := a.coll("c")
	target := c.doc(poolIds[0])
	newFields := map[string]interface{}{"_id": poolIds[0]}
	if nd.Choice("new.present", 2) == 1 {
		newFields["x"] = normFloat("new.x")
	}
	var err error
	w := nd.Choice("write", 5)
	wholeDoc := w >= 2
	switch w {
	case 0:
		if _, has := newFields["x"]; !has {
			nd.Assume(false) // UpdateById below only sets fields
		}
		err = e.db.UpdateById("c", poolIds[0], func(doc *d.Document) *d.Document {
			n := doc.Copy()
			n.Set("x", newFields["x"])
			return n
		})
	case 1:
		if _, has := newFields["x"]; !has {
			nd.Assume(false)
		}
		err = e.db.Update(query.NewQuery("c").Where(query.Field("_id").Eq(poolIds[0])), map[string]interface{}{"x": newFields["x"]})
	case 2:
		err = e.db.ReplaceById("c", poolIds[0], mkDoc(newFields))
	case 3:
		err = e.db.Save("c", mkDoc(newFields))
	case 4:
		err = e.db.DeleteById("c", poolIds[0])
		if err == nil {
			err = e.db.Insert("c", mkDoc(newFields))
		}
	}
	nd.Assert("C01.history.write-ok", err == nil)
	if wholeDoc {
		target.fields = newFields // ReplaceById / Save / Delete+Insert replace the whole document
	} else {
		target.fields["x"] = newFields["x"]
	}
	crit := genCmpLeaf("c", "x", opLit)
	checkFindAll(e, a, crit, "C01.history")
	docs, serr := e.db.FindAll(query.NewQuery("c").Sort(query.SortOption{Field: "x", Direction: nd.Int("dir")}))
	nd.Assert("C01.history.sorted-once-each", serr == nil && sameDocSet(docs, c.docs))
	n, cerr := e.db.Count(query.NewQuery("c").Where(buildCrit(crit)))
	nd.Assert("C09.history.count", cerr == nil && n == len(c.matching(crit)))
	nd.Reach("end")
}

var q1Doc = ref.Opts{Kinds: ref.KNil | ref.KFloat | ref.KString | ref.KBool, MaxStr: 1, FloatNormal: true}
var q1Lit = ref.Opts{Kinds: ref.KNil | ref.KFloat | ref.KString, MaxStr: 1, ConcFloats: true}

//verif:harness props=C01,C02,C16 tier=quick bounds="one document, field x absent or nil/float64 (symbolic)/string<=1/bool; every leaf operator (Exists, NotExists, Eq, Neq, Gt, GtEq, Lt, LtEq, In<=1, Contains<=1, Like) with literal nil/float{-1.5,0,2.5}/string<=1; index on x absent, before or after the data: FindAll through the database (normalisation, planner, index scan, filter) equals the documented semantics"
func H_C01_leaf_mixed() {
	e := openEnv()
	leaf := genPlanLeaf("c", []string{"x"}, q1Lit, false)
	do := q1Doc
	if leaf.Op == ref.OpLike {
		do.Kinds &^= ref.KString
	}
	cfg := stateCfg{nDocs: 1, fields: func(i int) map[string]interface{} { return genFields("d", do, "x") }}
	if nd.Choice("index.x", 2) == 1 {
		cfg.idxField = []string{"x"}
	}
	a := buildState(e, cfg)
	checkFindAll(e, a, leaf, "C01.leaf")
	nd.Reach("end")
}

//verif:harness props=C01,C02 tier=thorough bounds="2 documents (first: x,y each absent or from {-1.5,0,2.5}; second: x=0,y=2.5); criteria = Not/And/Or tree of depth <= 1 over leaves Eq/Neq/Gt/LtEq on x or y with symbolic float64 literals; index sets none/{x}/{y}/{x,y}: FindAll equals the documented semantics"
func H_C01_tree1() {
	e := openEnv()
	vals := ref.Opts{Kinds: ref.KFloat, ConcFloats: true}
	cfg := stateCfg{nDocs: 2, fields: func(i int) map[string]interface{} {
		if i == 1 {
			return map[string]interface{}{"x": 0.0, "y": 2.5}
		}
		return genFields("d", vals, "x", "y")
	}}
	cfg.idxField = [][]string{{}, {"x"}, {"y"}, {"x", "y"}}[nd.Choice("indexes", 4)]
	a := buildState(e, cfg)
	ops := []int{ref.OpEq, ref.OpNeq, ref.OpGt, ref.OpLtEq}
	leaf := func(n string) *ref.Crit {
		return &ref.Crit{Op: ops[nd.Choice(n+".op", len(ops))], Field: []string{"x", "y"}[nd.Choice(n+".field", 2)], Val: ref.Value(n+".v", opLit)}
	}
	var crit *ref.Crit
	switch nd.Choice("node", 4) {
	case 0:
		crit = leaf("a")
	case 1:
		crit = &ref.Crit{Op: ref.OpNot, A: leaf("a")}
	case 2:
		crit = &ref.Crit{Op: ref.OpAnd, A: leaf("a"), B: leaf("b")}
	case 3:
		crit = &ref.Crit{Op: ref.OpOr, A: leaf("a"), B: leaf("b")}
	}
	checkFindAll(e, a, crit, "C01.tree")
	nd.Reach("end")
}
