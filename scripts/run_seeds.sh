#!/bin/sh
# run all verified seeds against their target property's quick check (sequentially; modifies /repo temporarily)
cd /verif
for spec in "C06 A C06 C14 C17" "C06 B C06 C12" "C14 A C14 C17" "C14 B C14 C06" "C08 A C08" "C08 B C08" "C03 A C03" "C03 B C03 C06" "C10 A C10" "C10 B C10" "C04 A C04" "C04 B C04" "C17 A C17" "C17 B C17 C10" "C18 A C18" "C18 B C18" "C20 A C20 C02" "C20 B C20 C15" "C01 A C01 C02 C17" "C01 B C01 C06 C03" "C16 A C16 C10" "C16 B C16 C02" "C09 A C09" "C09 B C09 C08" "C13 A C13" "C13 B C13" "C15 A C15" "C15 B C15" "C11 A C11" "C11 B C11" "C07 A C07" "C07 B C07"; do
  set -- $spec
  id=$1; var=$2; shift 2
  [ -f /tmp/mut/$id.out/$var/patch.diff ] || continue
  /verif/scripts/try_seed.py "$id-$var" /tmp/mut/$id.out/$var/patch.diff "$@"
done
