#!/usr/bin/env python3
"""Regenerate DESIGN.md §11.5 (seeded changes), the regression table, §11.6 (harness registry) and §11.7 from
/verif/seeded/*/meta.json, /verif/work/seeded_results.jsonl and the //verif:harness directives."""
import json, glob, os, re, collections
rows = []
trials = {}
for l in open('/verif/work/seeded_results.jsonl'):
    r = json.loads(l)
    trials.setdefault(re.sub(r'-retest\d*$', '', r['name']), []).append(r)
    r['_retest'] = bool(re.search(r'-retest\d*$', r['name']))
for d in sorted(glob.glob('/verif/seeded/C*-[AB]') + glob.glob('/verif/seeded/R[23]C*-[AB]')):
    m = json.load(open(d + '/meta.json'))
    name = os.path.basename(d)
    det = m.get('detected_by', [])
    ts = trials.get(name, [])
    first_caught = any(x['exit'] == 1 for t in ts if not t['_retest'] for x in t['results'].values())
    d_txt = '; '.join(f"{x['property']}: {', '.join(sorted(set(x['labels']))[:3])}" for x in det) or '**not detected**'
    if det and first_caught:
        own = re.sub(r'^R[23]', '', name).split('-')[0]
        status = 'caught' if any(x['property'] == own for x in det) else 'caught (by a sibling property\'s check)'
    elif det:
        status = 'missed at first, check strengthened'
    else:
        status = 'not detected (see below)'
    rows.append(f"| {name} | {m['needs_to_manifest']} | {d_txt} | {status} |")
seeds = '\n'.join(['| seed | what it needs to manifest | detected by (assertion labels) | outcome |', '|---|---|---|---|'] + rows)
res = {}
for l in open('/verif/work/seeded_results.jsonl'):
    r = json.loads(l)
    if r['name'].startswith('regress-'):
        res.setdefault(re.sub(r'-retest\d*$', '', r['name']), []).append(r)
lines = ['| reverse of fix | detected by |', '|---|---|']
for n in sorted(res):
    det = []
    for r in res[n]:
        for p, x in r['results'].items():
            if x['exit'] == 1:
                det.append(f"{p}: {', '.join(sorted(set(x['labels']))[:2])}")
    lines.append(f"| {n} | {'; '.join(sorted(set(det))) or '**not detected**'} |")
    mp = f'/verif/seeded/{n}/meta.json'
    if os.path.exists(mp):
        m = json.load(open(mp))
        m['ran'] = [f"/verif/check {p} quick on a scratch worktree with the patch: exit {x['exit']} {x.get('labels', '')}" for r in res[n] for p, x in r['results'].items()]
        m['detected'] = bool(det)
        json.dump(m, open(mp, 'w'), indent=1)
reg_tbl = '\n'.join(lines)
regs = collections.defaultdict(list)
for f in glob.glob('/verif/harness/**/*.go', recursive=True):
    ls = open(f).read().split('\n')
    for i, l in enumerate(ls):
        mm = re.match(r'//verif:harness\s+(.*)', l.strip())
        if not mm:
            continue
        kv = dict((a, (c if c else b)) for a, b, c in re.findall(r'(\w+)=("([^"]*)"|\S+)', mm.group(1)))
        name = ''
        for j in range(i + 1, i + 5):
            if ls[j].startswith('func '):
                name = ls[j][5:].split('(')[0]
                break
        for p in kv.get('props', '').split(','):
            regs[p].append((name, kv.get('tier', 'quick'), kv.get('expect', ''), kv.get('bounds', '')))
out = ['### 11.6 Harness registry as built (generated from the `//verif:harness` directives)\n', 'A harness listed under several properties runs in each of their checks; "quick" harnesses also run in the thorough tier.\n']
for p in sorted(regs):
    if p in ('DEV', ''):
        continue
    out.append(f'\n**{p}**\n')
    for name, tier, exp, b in sorted(regs[p]):
        out.append(f"* `{name}` ({tier + (' twin' if exp else '')}) — {b}")
registry = '\n'.join(out) + '\n'
s = open('/verif/DESIGN.md').read()
s = s[:s.index('### 11.5 Seeded changes')]
s += open('/verif/scripts/design_11_5_head.md').read() + '\n' + seeds + '\n\n' + open('/verif/scripts/design_11_5_mid.md').read() + '\n' + reg_tbl + '\n\n' + open('/verif/scripts/design_11_5_tail.md').read() + '\n' + registry + '\n' + open('/verif/scripts/design_11_7.md').read()
open('/verif/DESIGN.md', 'w').write(s)
print('DESIGN.md regenerated:', len(rows), 'seeds,', len(res), 'regressions')
