#!/usr/bin/env python3
"""try_seed.py <name> <patch.diff> <prop> [<prop>...]: run the quick checks of the given properties against a scratch
worktree of /repo with the seeded change applied (VERIF_REPO/VERIF_OUT redirect the machinery; /repo and /verif/evidence
are not touched). Appends the outcome to /verif/work/seeded_results.jsonl. With SEED_IN_REPO=1 the change is applied to
/repo itself (git apply) and undone afterwards, as the final confirmation run does."""
import json, os, subprocess, sys, time
name, patch, props = sys.argv[1], sys.argv[2], sys.argv[3:]
tier = os.environ.get('SEED_TIER', 'quick')
inrepo = os.environ.get('SEED_IN_REPO') == '1'
def sh(cmd, **kw):
    return subprocess.run(cmd, shell=True, capture_output=True, text=True, **kw)
if inrepo:
    tree, out = '/repo', '/verif'
    if sh('git -C /repo status --porcelain').stdout.strip():
        print('refusing: /repo is dirty'); sys.exit(2)
else:
    tree, out = f'/tmp/mut/seedrun-{os.getpid()}', f'/tmp/mut/seedout-{os.getpid()}'
    sh(f'git -C /repo worktree add -q --detach {tree} HEAD')
    os.makedirs(out, exist_ok=True)
a = sh(f'git -C {tree} apply {patch}')
if a.returncode != 0:
    print('patch does not apply:', a.stderr); sys.exit(2)
env = dict(os.environ, VERIF_REPO=tree, VERIF_OUT=out)
results = {}
try:
    for p in props:
        t0 = time.time()
        r = sh(f'/verif/check {p} {tier}', cwd='/verif', env=env)
        viol = [l for l in r.stdout.splitlines() if l.startswith('VIOLATION')]
        inc = [l for l in r.stderr.splitlines() if l.startswith('INCONCLUSIVE')]
        labels = []
        for v in viol[:3]:
            try:
                labels.append(json.load(open(v.split('replay=')[1]))['assert'])
            except Exception:
                pass
        results[p] = {'exit': r.returncode, 'violations': len(viol), 'labels': labels, 'inconclusive': inc[:3], 'wall_s': round(time.time() - t0, 1)}
        print(name, p, 'exit', r.returncode, labels, inc[:1], flush=True)
        if r.returncode == 1 and os.environ.get('SEED_ALL') is None:
            break
finally:
    sh(f'git -C {tree} checkout -- . ; git -C {tree} clean -fdq')
    if inrepo:
        sh('git -C /verif checkout -- evidence 2>/dev/null; rm -rf /verif/replays')
    else:
        sh(f'git -C /repo worktree remove --force {tree}; rm -rf {out}')
with open('/verif/work/seeded_results.jsonl', 'a') as f:
    f.write(json.dumps({'name': name, 'patch': patch, 'tier': tier, 'in_repo': inrepo, 'results': results, 'detected': any(v['exit'] == 1 for v in results.values())}) + '\n')
