#!/usr/bin/env python3
"""try_seed.py <name> <patch.diff> <prop> [<prop>...]: apply a seeded change to /repo, run the quick checks of the
given properties, always undo the change, append the outcome to /verif/work/seeded_results.jsonl."""
import json, os, subprocess, sys, time
name, patch, props = sys.argv[1], sys.argv[2], sys.argv[3:]
tier = os.environ.get('SEED_TIER', 'quick')
def sh(cmd, **kw):
    return subprocess.run(cmd, shell=True, capture_output=True, text=True, **kw)
st = sh('git -C /repo status --porcelain')
if st.stdout.strip():
    print('refusing: /repo is dirty:', st.stdout); sys.exit(2)
a = sh(f'git -C /repo apply {patch}')
if a.returncode != 0:
    print('patch does not apply:', a.stderr); sys.exit(2)
results = {}
try:
    for p in props:
        t0 = time.time()
        r = sh(f'/verif/check {p} {tier}', cwd='/verif')
        viol = [l for l in r.stdout.splitlines() if l.startswith('VIOLATION')]
        inc = [l for l in r.stderr.splitlines() if l.startswith('INCONCLUSIVE')]
        results[p] = {'exit': r.returncode, 'violations': viol[:4], 'inconclusive': inc[:3], 'wall_s': round(time.time() - t0, 1)}
        print(name, p, 'exit', r.returncode, viol[:1], inc[:1], flush=True)
        if r.returncode == 1 and os.environ.get('SEED_ALL') is None:
            break
finally:
    sh('git -C /repo checkout -- .')
    sh('git -C /repo clean -fdq')
    # evidence and replays written against the mutated tree are not evidence for the real tree
    sh('git -C /verif checkout -- evidence 2>/dev/null; rm -rf /verif/replays')
with open('/verif/work/seeded_results.jsonl', 'a') as f:
    f.write(json.dumps({'name': name, 'patch': patch, 'tier': tier, 'results': results, 'detected': any(v['exit'] == 1 for v in results.values())}) + '\n')
