#!/usr/bin/env python3
"""Run the repository's test suite (guard off: nothing of /verif is applied) and
compare against the stable-pass list of /root/.vp/BASELINE.json. Exit 0 iff all
baseline tests still pass."""
import json, os, subprocess, sys
base = json.load(open('/root/.vp/BASELINE.json'))
want = set(base['stable_pass'])
env = dict(os.environ, GOFLAGS='-mod=mod', GOPROXY='off', GOSUMDB='off', GOTOOLCHAIN='local')
p = subprocess.run(['go', 'test', '-json', '-vet=off', '-count=1', '-timeout', '25m', './...'],
                   cwd='/repo', env=env, capture_output=True, text=True)
passed = set()
for line in p.stdout.splitlines():
    try:
        e = json.loads(line)
    except Exception:
        continue
    if e.get('Action') == 'pass' and e.get('Test'):
        passed.add(e['Package'] + '::' + e['Test'])
missing = sorted(want - passed)
print(f'baseline: {len(want & passed)}/{len(want)} stable tests pass')
for m in missing:
    print('  MISSING', m)
sys.exit(1 if missing else 0)
