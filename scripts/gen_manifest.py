#!/usr/bin/env python3
"""Generate /verif/MANIFEST.json from the per-property table below."""
import json

TECH = "bounded symbolic execution of go/ssa (own executor) + SMT (z3): every assertion decided per path by unsat/sat"

P = {
 "C01": ("FindAll on real DB code over the reference store vs the documented criteria semantics: comparison operators with symbolic literals on 2 documents, all 11 leaf operators on mixed kinds (1 document), histories of length two (a write through each write API, then filtered and sorted reads through the index), negation chains and depth-1 trees through the planner, index absent/before/after the data",
         "reference store (memstore) instead of bbolt/badger; msgpack/json are identity stubs; D<=2 documents; criteria depth <=1 at DB level (deeper nestings are decided on the planner and on Satisfy separately: C02 layer 1, C16)"),
 "C02": ("planner range soundness as an implication decided for every criteria tree of depth<=1 (11 leaf operators, literals nil/float/string, field references) x index sets {x},{y},{x,y} x symbolic documents, plus end-to-end FindAll/sort/window checks with and without indexes",
         "tree depth<=1 in quick (2 in thorough); literals from nil/{-1.5,0,2.5}/string<=1; reference store"),
 "C03": ("Update/UpdateFunc/Delete/DeleteById/DropCollection on 2-4-document states with index none|x|x+xy, also on sorted/skipped/limited queries (selection = the real FindAll of the pre-state): touched set exact, callback once per match on the pre-call value, others byte-identical, raw-store audit; the same script on the real bbolt and badger adapters gives identical results",
         "2-4 documents per state: page-layout-dependent behaviour of real bbolt on multi-page collections is reached only through the scaled native replay (400 extra documents) of counterexamples found on the bbolt contract stub, whose cursor is position-based after a mutation; reference store cursors are snapshots (badger's contract); the thorough tier repeats the bulk-operation harnesses over both real adapters"),
 "C04": ("every operation x every position k<=40 of one failing store call (begin/get/set/delete/cursor/item/commit) on the reference store: error reported, committed content unchanged, no open transaction, follow-up operations succeed; invalid-input cases (duplicate/malformed ids, id rewrite, missing/existing objects, failing import)",
         "one fault per operation; reference store's fault points; composite operations (import, create-by-query) are checked for the read-before-create order only"),
 "C05": ("REDUCED: the crash/fsync path of bbolt/badger cannot be encoded. Decided instead on every path of every write operation: exactly one write transaction, all writes inside it, committed exactly once iff success, nothing committed on error, no write after commit",
         "atomic durable commit of a store transaction is assumed (bbolt/badger contract); real process kills and reopen are outside the claim"),
 "C06": ("raw-store representation invariant (catalog, Size, one record per document, exactly one index entry per (index,document) under the current value, no residue) asserted after Insert/Update/Delete/DeleteById(absent)/CreateIndex/DropIndex/DropCollection+re-create, with prefix-related index names x/xy and sibling collections",
         "states of <=2 documents; index entry = key produced by the real encoder (its order is C10's subject)"),
 "C07": ("REDUCED: goroutine schedules are not explored. Decided: each operation performs all store access in one transaction (shared with C05); no plain write hits the DB handle, package-level variables or anything reachable from a shared *Query during any read/bulk operation (engine write monitor); builders/combinators are copy-on-write for all symbolic arguments; a rejected commit leaves no effect (C04)",
         "serialisable store transactions assumed; the store libraries' own concurrency and user callbacks are outside the claim; shared-write findings are engine-only (not replayable sequentially)"),
 "C08": ("sorted FindAll is an ordered permutation (both readings of absent-vs-nil accepted), window [skip, skip+limit) of the sorted sequence by sort-key tuples, unsorted window count, default sort by _id, skipLimitNode unit: symbolic direction/skip/limit (any int), index none / on sort field / on filter field",
         "<=3 documents quick, sort keys absent/nil/bool/{-1.5,0,2.5} (symbolic float64/strings in thorough); <=2 sort options"),
 "C09": ("Count/Exists/FindFirst/ForEach(stop at k)/FindById vs FindAll on sorted+windowed queries with symbolic skip/limit, Size shortcut after DeleteById(absent), reads issue no writes, builders leave the query unchanged",
         "<=4 documents; reference store"),
 "C10": ("Compare vs the documented order for all int64/uint64/float64 pairs at full 64-bit width (int-float within 2^53), times, strings<=3 bytes, cross-rank, containers, preorder laws; index key bytes vs that order (equal => equal keys, unequal => prefix-free) for all doubles, strings, times>=1970, bools, nil, ints within 2^53",
         "containers <=1 element quick (<=2 thorough); NaN excluded; ints beyond 2^53 only among integers"),
 "C11": ("REDUCED: Decode(Encode(m)) for every tree shape of depth<=3 (maps/slices/time/int64/string/nil leaves, symbolic payloads) is deeply equal in structure, Go types and values and Encode does not mutate m; msgpack is an identity stub",
         "msgpack's own fidelity (integer extremes, non-UTF-8, zone offsets) is library code outside the claim"),
 "C12": ("Insert batches (generated/empty/fresh/stored/repeated/malformed ids), Save/ReplaceById/UpdateById/Update/UpdateFunc incl. updaters that rewrite _id: ErrDuplicateKey + unchanged, malformed rejected, every record stored under its own _id, other documents intact, FindById returns own id only",
         "fresh ids come from a pool (freshness of random UUIDs assumed); batches <=2"),
 "C13": ("two collections with symbolic names (1-2 arbitrary bytes except ';', prefix pairs arise from the solver) sharing ids: catalog exact, ErrCollectionExist/ErrCollectionNotExist without side effects for all 18 operations, raw keys/results/count of the other collection untouched by each write operation, drop + re-create empty",
         "names <=2 bytes symbolic; one operation per step from a constructed state"),
 "C14": ("CreateIndex/DropIndex/HasIndex/ListIndexes over field sets from {x, xy} (prefix pair) with sentinel errors, sibling index entries audited and still serving exact sorted/filtered results; index scans in presence of a sibling index whose name extends the field (index-level harness)",
         "dotted pairs (n, n.a) only through C18/C06 paths; <=2 documents"),
 "C15": ("REDUCED: the REAL adapter code (store/bbolt, store/badger) executed over contract stubs of the bbolt/badger library surface: cursor contract for <=3 symbolic keys + an empty-valued key pending in the iterating write transaction, symbolic/before-first/after-last targets, both directions; and one operation script (create, index, insert, sorted/filtered reads, bulk update/delete/drop-index) giving identical results, counts and error classes on both adapters; counterexamples replay against real bbolt and real in-memory badger",
         "behaviour of the real libraries beyond the stub contracts (listed in zzverif/libstub) is outside the claim; badger on-disk options are not distinguished"),
 "C16": ("connective truth tables / De Morgan / double negation for every tree of depth<=2 (3 thorough) over MatchFunc leaves with symbolic outcomes; each leaf operator vs the documented semantics with symbolic field values and literals; field references (direct and in lists); the same number as each of 12 Go numeric kinds through the database",
         "lists <=2; strings<=1 byte; Like patterns concrete"),
 "C17": ("Range.IsEmpty/Intersect soundness as implications over symbolic bounds/flags/values; IterateRange/Iterate on the reference store: exact in-range ids in (value,id) order, both directions, stop after k, sibling index present",
         "index of 1 symbolic entry (+2-3 entries from a boundary set quick, symbolic in thorough); doubles 0 or |x|>=2^-1000 at scan level (all doubles in C10 key harness)"),
 "C18": ("Normalize for every Go numeric kind at full width behind 0-2 pointer levels, nil pointers, pointers to times, a tagged struct family (rename/omitempty/embedded/unexported/nested/pointer/map/slice/array), unsupported kinds; Set/Get/Has on dotted paths over pre-existing structures; idempotence",
         "reflect is modelled by the engine from go/types (validated by native replay); struct->document->Unmarshal round trip depends on encoding/json and is outside the claim"),
 "C19": ("REDUCED: Export leaves the store unchanged, Import reproduces count/ids/field trees, failing imports/exports alter no collection; JSON codec and files are identity stubs",
         "JSON typing (numbers, RFC 3339 times, UTF-8) is library code outside the claim"),
 "C20": ("panic/nil-deref/failed-type-assertion/index-out-of-range monitors active in every harness above, plus: all operations on a missing collection, after Close, planner on negated In/Like/Exists/Contains and field-reference operands with every index set",
         "well-typed arguments in the bounded domains of the other harnesses; 'never blocks' = no nested write transaction and no transaction left open"),
}

NA = {}

checks = []
for pid in sorted(P):
    text, note = P[pid]
    checks.append({
        "property_id": pid,
        "quick_cmd": f"/verif/check {pid} quick",
        "thorough_cmd": f"/verif/check {pid} thorough",
        "evidence_file": f"/verif/evidence/{pid}.json",
        "replay_cmd_template": "/verif/check --replay {path}",
        "engine": "symgo",
        "level_claimed": {"category": "model_checking", "text": text, "design_ref": "DESIGN.md §6 " + pid},
        "level_note": note,
        "technique": TECH,
    })

m = {
 "version": 1,
 "setup_cmd": "cd /verif/engine && GOFLAGS=-mod=mod GOPROXY=off GOSUMDB=off GOTOOLCHAIN=local go build -o /verif/bin/symgo ./cmd/symgo && cat /verif/engine/lemmas/fpcmp.smt2 /verif/engine/lemmas/i2f.smt2 /verif/engine/lemmas/u2f.smt2 > /dev/null && z3 /verif/engine/lemmas/fpcmp.smt2 | grep -c unsat | grep -qx 4 && z3 /verif/engine/lemmas/i2f.smt2 | grep -qx unsat && z3 /verif/engine/lemmas/u2f.smt2 | grep -qx unsat",
 "hooks": {"guard": "verif", "enable": "none needed: harnesses, stubs and oracles are injected as go/packages overlays (engine) and `go test -overlay` (replay); /repo is never modified by the checks", "baseline_off_cmd": "/verif/scripts/baseline.py", "source_commits": [], "add_only": True},
 "engines": [{"name": "symgo", "path": "/verif/engine", "serves_properties": sorted(P), "kind_free_text": "symbolic executor for go/ssa (x/tools v0.29.0) producing SMT-LIB2 for z3 4.8.12; fork by re-execution with a decision trail, work-stealing across 16 workers, model-guided branching, native replay of every counterexample via go test -overlay"}],
 "checks": checks,
 "not_applicable": [{"property_id": k, "reason": v} for k, v in sorted(NA.items())],
 "notes": "Exit codes: 0 holds within the stated bounds; 1 replayed violation (VIOLATION line); 2 inconclusive (solver unknown, unsupported construct, harness no longer type-checks, engine/native discrepancy). Fixed defects are listed in /verif/known_findings.json.",
}
json.dump(m, open('/verif/MANIFEST.json', 'w'), indent=1)
print("wrote MANIFEST.json with", len(checks), "checks")
