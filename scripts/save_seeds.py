#!/usr/bin/env python3
"""Materialise /verif/seeded/<id>-<variant>/ from the sub-agents' deliveries (only those re-verified by verify_seed.py)
and the detection outcomes recorded by try_seed.py."""
import glob, json, os, re, shutil, subprocess
res = {}
for l in open('/verif/work/seeded_results.jsonl'):
    r = json.loads(l)
    name = re.sub(r'-retest\d*$', '', r['name'])
    res.setdefault(name, []).append(r)
NEEDS = json.load(open('/verif/scripts/seed_needs.json')) if os.path.exists('/verif/scripts/seed_needs.json') else {}
for d in sorted(glob.glob('/tmp/mut/C*.out/[AB]') + glob.glob('/tmp/mut/R[23]C*.out/[AB]')):
    pid = re.search(r'/((?:R[23])?C\d+)\.out', d).group(1)
    var = os.path.basename(d)
    name = f'{pid}-{var}'
    if os.environ.get('ONLY') and not re.match(os.environ['ONLY'], name):
        continue
    if not os.path.exists(f'{d}/patch.diff'):
        continue
    cached = f'/tmp/mut/{pid}.{var}.verify'
    if os.environ.get('REUSE_VERIFY') and os.path.exists(cached):  # the verify_seed.py output of the trial driver (same scratch procedure)
        v = open(cached).read().splitlines()
    else:
        v = subprocess.run(['/verif/scripts/verify_seed.py', pid, var], capture_output=True, text=True).stdout.splitlines()
    try:
        ver = json.loads(v[0])
    except Exception:
        print(name, 'verification output unreadable'); continue
    if not ver.get('ok'):
        print(name, 'NOT kept (verification failed):', v[0][:200]); continue
    out = f'/verif/seeded/{name}'
    os.makedirs(out, exist_ok=True)
    for f in ('patch.diff', 'demo_test.go', 'notes.md'):
        if os.path.exists(f'{d}/{f}'):
            shutil.copy(f'{d}/{f}', f'{out}/{f}')
    runs = []
    detected_by = []
    for r in res.get(name, []):
        for p, x in r['results'].items():
            runs.append(f"/verif/check {p} {r['tier']} on a scratch worktree with the patch applied: exit {x['exit']}" + (f" (labels {x['labels']})" if x.get('labels') else ''))
            if x['exit'] == 1:
                detected_by.append({'property': p, 'labels': x.get('labels', [])})
    meta = {
        'breaks': re.sub(r"^R[23]", "", pid),
        'origin': 'independent sub-agent given only the property text and a scratch worktree',
        'needs_to_manifest': NEEDS.get(name, 'see notes.md'),
        'verified': {k: ver[k] for k in ('demo_passes_on_clean', 'patch_applies', 'builds', 'demo_fails_with_patch', 'baseline_84_pass_with_patch')},
        'ran': ['/verif/scripts/verify_seed.py %s %s (scratch worktree /tmp/mut/verify): %s' % (pid, var, 'ok')] + runs,
        'detected_by': detected_by,
        'detected': bool(detected_by),
    }
    json.dump(meta, open(f'{out}/meta.json', 'w'), indent=1)
    print(name, 'kept; detected:', bool(detected_by), [x['property'] for x in detected_by])
