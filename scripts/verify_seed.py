#!/usr/bin/env python3
"""verify_seed.py <Cxx> <A|B>: confirm a sub-agent's seeded change in a scratch worktree:
demo passes on the unchanged tree, patch applies, builds, the 84 baseline tests still pass, demo fails with the patch."""
import json, os, re, subprocess, sys, shutil
pid, var = sys.argv[1], sys.argv[2]
src = f'/tmp/mut/{pid}.out/{var}'
wt = os.environ.get('VERIFY_WT', '/tmp/mut/verify')
env = dict(os.environ, GOFLAGS='-mod=mod', GOPROXY='off', GOSUMDB='off', GOTOOLCHAIN='local')
def sh(cmd, cwd=wt, check=False):
    return subprocess.run(cmd, shell=True, cwd=cwd, env=env, capture_output=True, text=True)
if not os.path.isdir(wt):
    sh(f'git -C /repo worktree add -q --detach {wt} HEAD', cwd='/repo')
sh('git checkout -q --detach $(git -C /repo rev-parse HEAD) && git checkout -q . && git clean -fdq')
demo = open(f'{src}/demo_test.go').read()
first = demo.split('\n', 1)[0]
pkgline = re.search(r'^package (\w+)', demo, re.M).group(1)
# directory: from the first-line comment if it names one, else by package name
d = '.'
m = re.search(r'(internal|index|query|document|store/bbolt|store/badger|util)\b', first)
if m and pkgline not in ('clover', 'clover_test'):
    d = m.group(1)
elif pkgline not in ('clover', 'clover_test'):
    d = {'internal': 'internal', 'index': 'index', 'query': 'query', 'document': 'document', 'bbolt': 'store/bbolt', 'badger': 'store/badger', 'util': 'util'}.get(pkgline.replace('_test', ''), '.')
demofile = os.path.join(wt, d, f'zz_demo_{var}_test.go')
open(demofile, 'w').write(demo)
tname = re.search(r'func (TestDemo\w*)\(', demo).group(1)
r0 = sh(f'go test -vet=off -count=1 -run "^{tname}$" ./{d}')
clean_pass = r0.returncode == 0
ap = sh(f'git apply {src}/patch.diff')
applied = ap.returncode == 0
b = sh('go build ./...')
builds = b.returncode == 0
r1 = sh(f'go test -vet=off -count=1 -run "^{tname}$" ./{d}')
mut_fail = r1.returncode != 0
os.remove(demofile)
t = sh('go test -json -vet=off -count=1 -timeout 25m ./...')
passed = set()
for line in t.stdout.splitlines():
    try:
        e = json.loads(line)
    except Exception:
        continue
    if e.get('Action') == 'pass' and e.get('Test'):
        passed.add(e['Package'] + '::' + e['Test'])
want = set(json.load(open('/root/.vp/BASELINE.json'))['stable_pass'])
suite_ok = want <= passed
sh('git checkout -q . && git clean -fdq')
res = dict(id=pid, variant=var, demo_dir=d, demo_test=tname, demo_passes_on_clean=clean_pass, patch_applies=applied, builds=builds,
           demo_fails_with_patch=mut_fail, baseline_84_pass_with_patch=suite_ok, missing=sorted(want - passed)[:5])
res['ok'] = all([clean_pass, applied, builds, mut_fail, suite_ok])
print(json.dumps(res))
if not res['ok']:
    print((ap.stderr + b.stderr + r0.stdout[-600:] + r1.stdout[-300:])[-1500:])
