package sym

import (
	"fmt"
	"os"
	"time"
	"go/token"
	"go/types"
	"sort"
	"strings"
	"sync"

	"golang.org/x/tools/go/packages"
	"golang.org/x/tools/go/ssa"
	"golang.org/x/tools/go/ssa/ssautil"

	"symgo/smt"
)

// Program is the loaded, SSA-built code base shared (read-only) by workers.
type Program struct {
	Fset       *token.FileSet
	Prog       *ssa.Program
	Pkgs       map[string]*ssa.Package
	InterpPfx  []string          // package path prefixes whose init runs and whose globals are real
	Redirects  map[string]string // callee full name -> replacement function full name
	funcByName map[string]*ssa.Function
	infoMu     sync.Mutex
	info       map[*ssa.Function]*fnInfo
	LoadErrors []string
	HarnessPkgs []string
	interpPkgs  []string
}

type fnInfo struct {
	idx  map[ssa.Value]int
	n    int
}

// LoadConfig describes what to load.
type LoadConfig struct {
	Dir      string
	Patterns []string
	Overlay  map[string][]byte
	Env      []string
	InterpPfx []string
}

func Load(cfg LoadConfig) (*Program, error) {
	fset := token.NewFileSet()
	pc := &packages.Config{
		Mode:    packages.LoadAllSyntax,
		Dir:     cfg.Dir,
		Fset:    fset,
		Overlay: cfg.Overlay,
		Env:     cfg.Env,
		Tests:   false,
	}
	initial, err := packages.Load(pc, cfg.Patterns...)
	if err != nil {
		return nil, err
	}
	p := &Program{Fset: fset, Pkgs: map[string]*ssa.Package{}, Redirects: map[string]string{},
		funcByName: map[string]*ssa.Function{}, info: map[*ssa.Function]*fnInfo{}, InterpPfx: cfg.InterpPfx}
	packages.Visit(initial, nil, func(pk *packages.Package) {
		for _, e := range pk.Errors {
			p.LoadErrors = append(p.LoadErrors, e.Error())
		}
	})
	if len(p.LoadErrors) > 0 {
		return p, fmt.Errorf("load errors: %s", strings.Join(p.LoadErrors, "; "))
	}
	prog, _ := ssautil.AllPackages(initial, ssa.InstantiateGenerics)
	prog.Build()
	p.Prog = prog
	for _, pk := range prog.AllPackages() {
		p.Pkgs[pk.Pkg.Path()] = pk
	}
	for _, ip := range initial {
		p.HarnessPkgs = append(p.HarnessPkgs, ip.PkgPath)
	}
	// redirects: //verif:redirect <callee> comments on harness functions
	packages.Visit(initial, nil, func(pk *packages.Package) {
		interp := false
		for _, pfx := range cfg.InterpPfx {
			if strings.HasPrefix(pk.PkgPath, pfx) {
				interp = true
			}
		}
		if !interp {
			return
		}
		sp := p.Pkgs[pk.PkgPath]
		if sp == nil {
			return
		}
		for _, f := range pk.Syntax {
			for _, cg := range f.Comments {
				for _, c := range cg.List {
					const tag = "//verif:redirect "
					if !strings.HasPrefix(c.Text, tag) {
						continue
					}
					rest := strings.Fields(strings.TrimPrefix(c.Text, tag))
					if len(rest) != 2 {
						p.LoadErrors = append(p.LoadErrors, "bad redirect: "+c.Text)
						continue
					}
					// form: //verif:redirect <callee full name> <replacement func in this package>
					p.Redirects[rest[0]] = pk.PkgPath + "." + rest[1]
				}
			}
		}
	})
	return p, nil
}

// FuncByName resolves "pkg/path.Func", "(pkg/path.T).Method" or "(*pkg/path.T).Method".
func (p *Program) FuncByName(name string) *ssa.Function {
	p.infoMu.Lock()
	defer p.infoMu.Unlock()
	if f, ok := p.funcByName[name]; ok {
		return f
	}
	var res *ssa.Function
	if strings.HasPrefix(name, "(") {
		// method
		end := strings.Index(name, ").")
		if end > 0 {
			recv := name[1:end]
			meth := name[end+2:]
			ptr := strings.HasPrefix(recv, "*")
			recv = strings.TrimPrefix(recv, "*")
			dot := strings.LastIndex(recv, ".")
			if dot > 0 {
				pk := p.Pkgs[recv[:dot]]
				if pk != nil {
					if tn, ok := pk.Members[recv[dot+1:]].(*ssa.Type); ok {
						var T types.Type = tn.Type()
						if ptr {
							T = types.NewPointer(T)
						}
						sel := p.Prog.MethodSets.MethodSet(T).Lookup(pk.Pkg, meth)
						if sel != nil {
							res = p.Prog.MethodValue(sel)
						}
					}
				}
			}
		}
	} else {
		dot := strings.LastIndex(name, ".")
		if dot > 0 {
			if pk := p.Pkgs[name[:dot]]; pk != nil {
				res = pk.Func(name[dot+1:])
			}
		}
	}
	p.funcByName[name] = res
	return res
}

func (p *Program) infoFor(fn *ssa.Function) *fnInfo {
	p.infoMu.Lock()
	defer p.infoMu.Unlock()
	if fi, ok := p.info[fn]; ok {
		return fi
	}
	fi := &fnInfo{idx: map[ssa.Value]int{}}
	for _, prm := range fn.Params {
		fi.idx[prm] = fi.n
		fi.n++
	}
	for _, fv := range fn.FreeVars {
		fi.idx[fv] = fi.n
		fi.n++
	}
	for _, b := range fn.Blocks {
		for _, ins := range b.Instrs {
			if v, ok := ins.(ssa.Value); ok {
				fi.idx[v] = fi.n
				fi.n++
			}
		}
	}
	p.info[fn] = fi
	return fi
}

func (p *Program) isInterpPkg(path string) bool {
	for _, pfx := range p.InterpPfx {
		if strings.HasPrefix(path, pfx) {
			return true
		}
	}
	return false
}

// ---- per-worker machine ----

type choice struct {
	alts   []int
	cur    int
	models []map[string]uint64 // a satisfying assignment of the path condition per alternative (nil = not known)
}

type NdVar struct {
	Name string
	Kind string // bool,int64,uint64,byte,float64,... or "choice"
	Term *smt.Term
	Val  int // for choices
}

type Violation struct {
	Label   string
	Kind    string // assert | panic
	Msg     string
	Model   map[string]string // nd name -> hex value / int
	Choices map[string]int
	Trail   []int
}

type Limits struct {
	MaxSteps     int
	MaxCallDepth int
	MaxPaths     int
}

type Stats struct {
	Paths          int
	PathsAborted   int // assumption-infeasible
	Steps          int64
	ChoicePoints   int
	AssertQueries  int
	AssertTrivial  int
	AssertNontriv  int
	FeasQueries    int
	UnknownFeas    int
	UnknownAssert  int
	Unsupported    map[string]int
	BudgetHits     int
	Reached        map[string]int
	FuncsHit       map[string]int
	Assumes        map[string]int
	AssertLabels   map[string]int
}

type Machine struct {
	P      *Program
	St     *smt.Store
	Solver *smt.Solver
	Lim    Limits

	// exploration state
	trail []choice
	pos   int

	// path state
	pc       []*smt.Term
	pcSet    map[int]bool
	globals  map[*ssa.Global]*Value
	ndCount  map[string]int
	ndVars   []NdVar
	steps    int
	depth    int
	pcMaybe  bool // a feasibility query on this path returned unknown
	model    map[string]uint64 // assignment satisfying pc (nil = unknown)
	observes []string
	inited   map[string]bool
	sentinel map[string]Value
	pathNotes []string

	byteTab [256]*smt.Term

	Stats      Stats
	Violations []Violation
	seenViol   map[string]bool
	Concrete   map[string]uint64 // when non-nil: concrete mode (nd values fixed)
	ConcChoice map[string]int
	Samples    []map[string]string
	MaxSamples int
	Harness    string
	intr       map[string]Intrinsic
	Debug      bool

	// sharding: the subtree below each depth-ShardDepth trail prefix belongs to shard hash(prefix)%ShardN
	ShardN     int
	ShardI     int
	ShardDepth int
	forkHash   uint32
	forkCount  int
	forcedLen  int

	// cross-solver sampling (thorough tier): standalone scripts of assertion queries with the primary verdict
	CrossEvery   int
	CrossQueries []CrossQuery
	crossCount   int

	// shared-memory write monitor (C07): cells frozen by nd.Freeze*, and plain writes that hit them
	frozen       map[*Value]string
	frozenMaps   map[*Map]string
	frozenWrites []string
}

func NewMachine(p *Program, solverKind string, timeoutMs int) (*Machine, error) {
	st := smt.NewStore()
	m := &Machine{P: p, St: st, Lim: Limits{MaxSteps: 2_000_000, MaxCallDepth: 400, MaxPaths: 200000}}
	if solverKind != "" {
		sv, err := smt.NewSolver(solverKind, st, timeoutMs)
		if err != nil {
			return nil, err
		}
		m.Solver = sv
	}
	m.Stats.Unsupported = map[string]int{}
	m.Stats.Reached = map[string]int{}
	m.Stats.FuncsHit = map[string]int{}
	m.Stats.Assumes = map[string]int{}
	m.Stats.AssertLabels = map[string]int{}
	m.seenViol = map[string]bool{}
	m.intr = buildIntrinsics()
	m.Debug = os.Getenv("SYMGO_TRACE") != ""
	m.MaxSamples = 3
	return m, nil
}

func (m *Machine) Close() {
	if m.Solver != nil {
		m.Solver.Close()
	}
}

// control-flow signals
type pathAbort struct{ reason string }
type goPanic struct {
	msg string
	val Value
}
type budgetHit struct{ what string }

func (m *Machine) resetPath() {
	m.pos = 0
	m.pc = m.pc[:0]
	m.pcSet = map[int]bool{}
	m.globals = map[*ssa.Global]*Value{}
	m.ndCount = map[string]int{}
	m.ndVars = m.ndVars[:0]
	m.steps = 0
	m.depth = 0
	m.pcMaybe = false
	m.observes = nil
	m.inited = map[string]bool{}
	m.sentinel = map[string]Value{}
	m.pathNotes = nil
	m.frozen, m.frozenMaps, m.frozenWrites = nil, nil, nil
	m.model = map[string]uint64{}
	m.forkHash = 2166136261
	m.forkCount = 0
}

func (m *Machine) addPC(t *smt.Term) {
	if t.IsTrue() || m.pcSet[t.ID] {
		return
	}
	m.pcSet[t.ID] = true
	m.pc = append(m.pc, t)
}

func (m *Machine) check(extra *smt.Term, model []*smt.Term) (smt.Result, map[int]uint64) {
	as := make([]*smt.Term, 0, len(m.pc)+1)
	as = append(as, m.pc...)
	if extra != nil {
		as = append(as, extra)
	}
	if slowDir == "" {
		if incremental {
			return m.Solver.CheckInc(m.pc, extra, model)
		}
		return m.Solver.Check(as, model)
	}
	t0 := time.Now()
	r, mod := m.Solver.CheckInc(m.pc, extra, model)
	if d := time.Since(t0); d > 40*time.Millisecond {
		slowN++
		os.WriteFile(fmt.Sprintf("%s/q-%s-%d-%dms-%s.smt2", slowDir, m.Harness, slowN, d.Milliseconds(), r), []byte(smt.Standalone(m.St, as)), 0o644)
	}
	return r, mod
}

var slowDir = os.Getenv("SYMGO_SLOWDIR")
var slowN int
var incremental = os.Getenv("SYMGO_NOINC") == ""

// checkModel decides pc ∧ extra and, when satisfiable, returns an assignment of all nd variables of the path.
func (m *Machine) checkModel(extra *smt.Term) (smt.Result, map[string]uint64) {
	mt := m.modelTerms()
	r, mod := m.check(extra, mt)
	if r != smt.Sat || (mod == nil && len(mt) > 0) {
		return r, nil
	}
	out := make(map[string]uint64, len(mt))
	for _, t := range mt {
		out[t.Name] = mod[t.ID]
	}
	return r, out
}

func (m *Machine) evalModel(c *smt.Term) (bool, bool) {
	if m.model == nil {
		return false, false
	}
	return smt.Eval(c, m.model, map[int]uint64{}) == 1, true
}

// choose returns the alternative to follow at this choice point; compute is
// called only when the point is new and must return the feasible alternatives.
func (m *Machine) choose(compute func() ([]int, []map[string]uint64)) int {
	var c choice
	if m.pos < len(m.trail) {
		c = m.trail[m.pos]
	} else {
		alts, models := compute()
		if len(alts) == 0 {
			panic(pathAbort{"no feasible alternative"})
		}
		c = choice{alts: alts, models: models}
		m.trail = append(m.trail, c)
		m.Stats.ChoicePoints++
	}
	m.pos++
	alt := c.alts[c.cur]
	if c.models != nil {
		m.model = c.models[c.cur]
	} else if len(c.alts) == 1 && m.pos <= m.forcedLen {
		m.model = nil // forced prefix taken over from another worker: no model known yet
	}
	if len(c.alts) > 1 && m.ShardN > 1 {
		// only real forks count towards the shard prefix
		if m.forkCount == m.ShardDepth {
			if int(m.forkHash%uint32(m.ShardN)) != m.ShardI {
				panic(pathAbort{"subtree of another shard"})
			}
		}
		m.forkHash = (m.forkHash ^ uint32(alt+1)) * 16777619
		m.forkCount++
	}
	return alt
}

// Branch decides a (possibly symbolic) condition, forking when both outcomes are feasible.
func (m *Machine) Branch(c *smt.Term) bool {
	if c.IsConst() {
		return c.C == 1
	}
	if m.pcSet[c.ID] {
		return true
	}
	nc := m.St.Not(c)
	if m.pcSet[nc.ID] {
		return false
	}
	if m.Concrete != nil {
		return m.evalConcrete(c) == 1
	}
	alt := m.choose(func() ([]int, []map[string]uint64) {
		cur := m.model
		if v, ok := m.evalModel(c); ok {
			// the current model already witnesses one side; only the other needs the solver
			other := nc
			if !v {
				other = c
			}
			m.Stats.FeasQueries++
			r, om := m.checkModel(other)
			mine, his := 0, 1
			if !v {
				mine, his = 1, 0
			}
			switch r {
			case smt.Unsat:
				return []int{mine}, []map[string]uint64{cur}
			case smt.Unknown:
				m.Stats.UnknownFeas++
				m.pcMaybe = true
			}
			if mine == 0 {
				return []int{0, 1}, []map[string]uint64{cur, om}
			}
			_ = his
			return []int{0, 1}, []map[string]uint64{om, cur}
		}
		m.Stats.FeasQueries++
		r1, m1 := m.checkModel(c)
		if r1 == smt.Unsat {
			return []int{1}, []map[string]uint64{nil}
		}
		if r1 == smt.Unknown {
			m.Stats.UnknownFeas++
		}
		m.Stats.FeasQueries++
		r2, m2 := m.checkModel(nc)
		if r2 == smt.Unsat {
			return []int{0}, []map[string]uint64{m1}
		}
		if r2 == smt.Unknown {
			m.Stats.UnknownFeas++
		}
		if r1 == smt.Unknown || r2 == smt.Unknown {
			m.pcMaybe = true
		}
		return []int{0, 1}, []map[string]uint64{m1, m2}
	})
	if alt == 0 {
		m.addPC(c)
		return true
	}
	m.addPC(nc)
	return false
}

func (m *Machine) evalConcrete(t *smt.Term) uint64 {
	return smt.Eval(t, m.Concrete, map[int]uint64{})
}

// Choice is an exhaustive n-way concrete case split.
func (m *Machine) Choice(name string, n int) int {
	if n <= 0 {
		panic(pathAbort{"empty choice"})
	}
	name = m.uniqueName(name)
	var v int
	if m.Concrete != nil {
		v = m.ConcChoice[name]
		if v < 0 || v >= n {
			v = 0
		}
	} else {
		v = m.choose(func() ([]int, []map[string]uint64) {
			a := make([]int, n)
			for i := range a {
				a[i] = i
			}
			return a, nil
		})
	}
	m.ndVars = append(m.ndVars, NdVar{Name: name, Kind: "choice", Val: v})
	return v
}

func (m *Machine) uniqueName(name string) string {
	k := m.ndCount[name]
	m.ndCount[name] = k + 1
	if k == 0 {
		return name
	}
	return fmt.Sprintf("%s#%d", name, k)
}

// Nd creates a fresh symbolic scalar.
func (m *Machine) Nd(name, kind string, width int) *smt.Term {
	name = m.uniqueName(name)
	var t *smt.Term
	if m.Concrete != nil {
		v := m.Concrete[name]
		if width == 0 {
			t = m.St.Bool(v != 0)
		} else {
			t = m.St.BV(width, v)
		}
		m.ndVars = append(m.ndVars, NdVar{Name: name, Kind: kind, Term: t})
		return t
	}
	t = m.St.Var(fmt.Sprintf("%s@%d", name, width), smt.Sort(width))
	m.ndVars = append(m.ndVars, NdVar{Name: name, Kind: kind, Term: t})
	if m.model != nil {
		name := t.Name
		if _, ok := m.model[name]; !ok {
			// the path condition does not mention the new variable: any value extends the model
			nm := make(map[string]uint64, len(m.model)+1)
			for k, v := range m.model {
				nm[k] = v
			}
			nm[name] = 0
			m.model = nm
		}
	}
	return t
}

// Assume restricts the path.
func (m *Machine) Assume(c *smt.Term) {
	if c.IsConst() {
		if c.C == 0 {
			panic(pathAbort{"assume false"})
		}
		return
	}
	if m.pcSet[c.ID] {
		return
	}
	if m.Concrete != nil {
		if m.evalConcrete(c) == 0 {
			panic(pathAbort{"assume false (concrete)"})
		}
		return
	}
	alt := m.choose(func() ([]int, []map[string]uint64) {
		if v, ok := m.evalModel(c); ok && v {
			return []int{0}, []map[string]uint64{m.model}
		}
		m.Stats.FeasQueries++
		r, mod := m.checkModel(c)
		if r == smt.Unsat {
			return []int{1}, []map[string]uint64{nil}
		}
		if r == smt.Unknown {
			m.Stats.UnknownFeas++
			m.pcMaybe = true
		}
		return []int{0}, []map[string]uint64{mod}
	})
	if alt == 1 {
		panic(pathAbort{"assumption infeasible"})
	}
	m.addPC(c)
}

func (m *Machine) modelTerms() []*smt.Term {
	var ts []*smt.Term
	for _, v := range m.ndVars {
		if v.Term != nil && !v.Term.IsConst() {
			ts = append(ts, v.Term)
		}
	}
	return ts
}

func (m *Machine) snapshotModel(model map[int]uint64) (map[string]string, map[string]int) {
	vals := map[string]string{}
	ch := map[string]int{}
	for _, v := range m.ndVars {
		if v.Kind == "choice" {
			ch[v.Name] = v.Val
			continue
		}
		if v.Term.IsConst() {
			vals[v.Name] = fmt.Sprintf("0x%x", v.Term.C)
			continue
		}
		if model != nil {
			vals[v.Name] = fmt.Sprintf("0x%x", model[v.Term.ID])
		} else {
			vals[v.Name] = "0x0"
		}
	}
	return vals, ch
}

func (m *Machine) trailSig() []int {
	out := make([]int, 0, m.pos)
	for i := 0; i < m.pos && i < len(m.trail); i++ {
		out = append(out, m.trail[i].alts[m.trail[i].cur])
	}
	return out
}

func (m *Machine) recordViolation(kind, label, msg string, model map[int]uint64) {
	vals, ch := m.snapshotModel(model)
	sig := kind + "|" + label
	// dedupe on label + choice signature
	var ks []string
	for k, v := range ch {
		ks = append(ks, fmt.Sprintf("%s=%d", k, v))
	}
	sort.Strings(ks)
	sig += "|" + strings.Join(ks, ",")
	if m.seenViol[sig] {
		return
	}
	m.seenViol[sig] = true
	m.Violations = append(m.Violations, Violation{Label: label, Kind: kind, Msg: msg, Model: vals, Choices: ch, Trail: m.trailSig()})
}

// Assert checks the property on this path.
func (m *Machine) Assert(label string, c *smt.Term) {
	m.Stats.AssertQueries++
	m.Stats.AssertLabels[label]++
	if c.IsConst() {
		if len(m.pc) > 0 {
			m.Stats.AssertNontriv++ // decided by the feasibility queries that built this path condition
		} else {
			m.Stats.AssertTrivial++
		}
		if c.C == 0 {
			// violated on a feasible path: need a model of the pc
			if m.Concrete != nil {
				m.recordViolation("assert", label, "", nil)
				return
			}
			r, model := m.check(nil, m.modelTerms())
			switch r {
			case smt.Sat:
				m.recordViolation("assert", label, "", model)
			case smt.Unknown:
				m.Stats.UnknownAssert++
			}
		}
		return
	}
	if m.pcSet[c.ID] {
		m.Stats.AssertTrivial++
		return
	}
	if m.Concrete != nil {
		if m.evalConcrete(c) == 0 {
			m.recordViolation("assert", label, "", nil)
		}
		return
	}
	m.Stats.AssertNontriv++
	nc := m.St.Not(c)
	var r smt.Result
	var model map[int]uint64
	if v, ok := m.evalModel(c); ok && !v {
		// the current model of the path condition already falsifies the assertion
		r = smt.Sat
		model = map[int]uint64{}
		for _, t := range m.modelTerms() {
			model[t.ID] = m.model[t.Name]
		}
	} else {
		r, model = m.check(nc, m.modelTerms())
		if m.CrossEvery > 0 && r != smt.Unknown {
			m.crossCount++
			if m.crossCount <= 2 || m.crossCount%m.CrossEvery == 0 {
				as := append(append([]*smt.Term{}, m.pc...), nc)
				m.CrossQueries = append(m.CrossQueries, CrossQuery{Script: smt.Standalone(m.St, as), Primary: r.String(), Label: label})
			}
		}
	}
	switch r {
	case smt.Unsat:
		// holds; it is now a known fact on this path
		m.addPC(c)
	case smt.Sat:
		m.recordViolation("assert", label, "", model)
		// continue under the assumption that it held, if that is feasible
		rr, mod := m.checkModel(c)
		if rr == smt.Unsat {
			panic(pathAbort{"assertion fails on the whole path"})
		}
		m.model = mod
		m.addPC(c)
	default:
		m.Stats.UnknownAssert++
		m.addPC(c)
	}
}

func (m *Machine) handleProgramPanic(gp goPanic) {
	if m.Concrete != nil {
		m.recordViolation("panic", "panic", gp.msg, nil)
		return
	}
	r, model := m.check(nil, m.modelTerms())
	switch r {
	case smt.Sat:
		m.recordViolation("panic", "panic", gp.msg, model)
	case smt.Unknown:
		m.Stats.UnknownAssert++
	}
}

// backtrack advances the trail to the next unexplored alternative.
func (m *Machine) backtrack() bool {
	// drop choices beyond what was used on this path
	if m.pos < len(m.trail) {
		m.trail = m.trail[:m.pos]
	}
	for len(m.trail) > 0 {
		last := &m.trail[len(m.trail)-1]
		if last.cur+1 < len(last.alts) {
			last.cur++
			return true
		}
		m.trail = m.trail[:len(m.trail)-1]
	}
	return false
}

type CrossQuery struct {
	Script  string
	Primary string
	Label   string
}

type RunResult struct {
	Harness    string
	Inconclusive []string
}

// Explore runs the harness function over all paths below the forced trail prefix.
// After every path, donate (if non-nil) may take over untried alternatives.
func (m *Machine) Explore(fn *ssa.Function, prefix []int, donate func(prefixes [][]int) bool, wantDonate func() bool) (res RunResult) {
	res.Harness = fn.Name()
	m.Harness = fn.Name()
	m.trail = nil
	for _, a := range prefix {
		m.trail = append(m.trail, choice{alts: []int{a}})
	}
	m.forcedLen = len(prefix)
	inconc := map[string]bool{}
	for {
		m.resetPath()
		m.runOnePath(fn, inconc)
		m.Stats.Paths++
		m.Stats.Steps += int64(m.steps)
		if m.Debug {
			fmt.Fprintf(os.Stderr, "[path %d] steps=%d trail=%v pc=%d notes=%v\n", m.Stats.Paths, m.steps, m.trailSig(), len(m.pc), m.pathNotes)
		}
		if m.Concrete != nil {
			break
		}
		if m.Stats.Paths >= m.Lim.MaxPaths {
			inconc["path budget exhausted"] = true
			m.Stats.BudgetHits++
			break
		}
		if wantDonate != nil && wantDonate() {
			m.donate(donate)
		}
		if !m.backtrack() {
			break
		}
	}
	for k := range inconc {
		res.Inconclusive = append(res.Inconclusive, k)
	}
	sort.Strings(res.Inconclusive)
	return res
}

// donate hands the untried alternatives of the shallowest open choice point to other workers.
func (m *Machine) donate(give func(prefixes [][]int) bool) {
	n := m.pos
	if n > len(m.trail) {
		n = len(m.trail)
	}
	for i := 0; i < n; i++ {
		c := &m.trail[i]
		if c.cur+1 >= len(c.alts) {
			continue
		}
		var out [][]int
		for _, a := range c.alts[c.cur+1:] {
			p := make([]int, 0, i+1)
			for j := 0; j < i; j++ {
				p = append(p, m.trail[j].alts[m.trail[j].cur])
			}
			p = append(p, a)
			out = append(out, p)
		}
		if give(out) {
			c.alts = c.alts[:c.cur+1]
			if c.models != nil {
				c.models = c.models[:c.cur+1]
			}
		}
		return
	}
}

func (m *Machine) runOnePath(fn *ssa.Function, inconc map[string]bool) {
	defer func() {
		if r := recover(); r != nil {
			switch r := r.(type) {
			case pathAbort:
				m.Stats.PathsAborted++
				m.Stats.Assumes[r.reason]++
			case goPanic:
				m.handleProgramPanic(r)
			case unsupported:
				m.Stats.Unsupported[r.msg]++
				inconc["unsupported: "+r.msg] = true
			case budgetHit:
				m.Stats.BudgetHits++
				inconc["budget: "+r.what] = true
			default:
				panic(r)
			}
			return
		}
		// completed path: keep a sample
		if m.Concrete == nil && len(m.Samples) < m.MaxSamples {
			r, model := m.check(nil, m.modelTerms())
			if r == smt.Sat {
				vals, ch := m.snapshotModel(model)
				s := map[string]string{}
				for k, v := range vals {
					s[k] = v
				}
				for k, v := range ch {
					s["choice:"+k] = fmt.Sprint(v)
				}
				m.Samples = append(m.Samples, s)
			}
		}
	}()
	m.initPackages()
	m.callFunction(fn, nil)
}
