package sym

import (
	"go/token"
	"go/types"

	"symgo/smt"
)

type rtypeMarker struct{}

func (rtypeMarker) Underlying() types.Type { return rtypeMarker{} }
func (rtypeMarker) String() string         { return "*reflect.rtype" }

func identical(a, b types.Type) bool {
	_, am := a.(rtypeMarker)
	_, bm := b.(rtypeMarker)
	if am || bm {
		return am && bm
	}
	return types.Identical(a, b)
}

func (m *Machine) binop(op token.Token, xt types.Type, x, y Value, yt types.Type) Value {
	st := m.St
	switch op {
	case token.EQL:
		return m.eqT(xt, x, y)
	case token.NEQ:
		return st.Not(m.eqT(xt, x, y))
	}
	// strings
	if xs, ok := x.(Str); ok {
		ys := y.(Str)
		switch op {
		case token.ADD:
			b := make([]*smt.Term, 0, len(xs.B)+len(ys.B))
			b = append(b, xs.B...)
			b = append(b, ys.B...)
			return Str{B: b}
		case token.LSS:
			return m.strLess(xs, ys, false)
		case token.LEQ:
			return m.strLess(xs, ys, true)
		case token.GTR:
			return m.strLess(ys, xs, false)
		case token.GEQ:
			return m.strLess(ys, xs, true)
		}
		unsupportedf("string binop %s", op)
	}
	a, ok1 := x.(*smt.Term)
	b, ok2 := y.(*smt.Term)
	if !ok1 || !ok2 {
		unsupportedf("binop %s on %T,%T", op, x, y)
	}
	if a.S == 0 {
		switch op {
		case token.LAND, token.AND:
			return st.And(a, b)
		case token.LOR, token.OR:
			return st.Or(a, b)
		}
		unsupportedf("bool binop %s", op)
	}
	if isFloat(xt) {
		switch op {
		case token.ADD:
			return st.FArith(smt.FAdd, a, b)
		case token.SUB:
			return st.FArith(smt.FSub, a, b)
		case token.MUL:
			return st.FArith(smt.FMul, a, b)
		case token.QUO:
			return st.FArith(smt.FDiv, a, b)
		case token.LSS:
			return st.FLt(a, b)
		case token.LEQ:
			return st.FLe(a, b)
		case token.GTR:
			return st.FLt(b, a)
		case token.GEQ:
			return st.FLe(b, a)
		}
		unsupportedf("float binop %s", op)
	}
	sg := isSigned(xt)
	switch op {
	case token.ADD:
		return st.Add(a, b)
	case token.SUB:
		return st.Sub(a, b)
	case token.MUL:
		return st.Mul(a, b)
	case token.QUO, token.REM:
		if !m.Branch(st.Not(st.Eq(b, st.BV(int(b.S), 0)))) {
			m.goPanicf("integer divide by zero")
		}
		if op == token.QUO {
			if sg {
				return st.SDiv(a, b)
			}
			return st.UDiv(a, b)
		}
		if sg {
			return st.SRem(a, b)
		}
		return st.URem(a, b)
	case token.AND:
		return st.BAnd(a, b)
	case token.OR:
		return st.BOr(a, b)
	case token.XOR:
		return st.BXor(a, b)
	case token.AND_NOT:
		return st.BAnd(a, st.BNot(b))
	case token.SHL, token.SHR:
		// shift count: unsigned semantics (negative signed count panics in Go)
		if isSigned(yt) {
			if m.Branch(st.SLt(b, st.BV(int(b.S), 0))) {
				m.goPanicf("negative shift amount")
			}
		}
		cnt := b
		w := int(a.S)
		if int(cnt.S) < w {
			cnt = st.ZExt(cnt, w)
		} else if int(cnt.S) > w {
			big := st.Not(st.ULt(cnt, st.BV(int(cnt.S), uint64(w))))
			low := st.Extract(cnt, w-1, 0)
			cnt = st.Ite(big, st.BV(w, uint64(w)), low)
		}
		if op == token.SHL {
			return st.Shl(a, cnt)
		}
		if sg {
			return st.AShr(a, cnt)
		}
		return st.LShr(a, cnt)
	case token.LSS:
		if sg {
			return st.SLt(a, b)
		}
		return st.ULt(a, b)
	case token.LEQ:
		if sg {
			return st.SLe(a, b)
		}
		return st.ULe(a, b)
	case token.GTR:
		if sg {
			return st.SLt(b, a)
		}
		return st.ULt(b, a)
	case token.GEQ:
		if sg {
			return st.SLe(b, a)
		}
		return st.ULe(b, a)
	}
	unsupportedf("binop %s", op)
	return nil
}

// strLess: lexicographic a < b (or a <= b).
func (m *Machine) strLess(a, b Str, orEq bool) *smt.Term {
	st := m.St
	// build from the end
	var res *smt.Term
	n := len(a.B)
	if len(b.B) < n {
		n = len(b.B)
	}
	// after common prefix equal: shorter is smaller
	if len(a.B) < len(b.B) {
		res = st.True
	} else if len(a.B) == len(b.B) {
		res = st.Bool(orEq)
	} else {
		res = st.False
	}
	for i := n - 1; i >= 0; i-- {
		lt := st.ULt(a.B[i], b.B[i])
		eq := st.Eq(a.B[i], b.B[i])
		res = st.Or(lt, st.And(eq, res))
	}
	return res
}

// strCompare returns a BV64 term in {-1,0,1}.
func (m *Machine) strCompare(a, b Str) *smt.Term {
	st := m.St
	lt := m.strLess(a, b, false)
	eq := m.strEq(a, b)
	return st.Ite(eq, st.BV(64, 0), st.Ite(lt, st.BV(64, ^uint64(0)), st.BV(64, 1)))
}

func (m *Machine) strEq(a, b Str) *smt.Term {
	if len(a.B) != len(b.B) {
		return m.St.False
	}
	r := m.St.True
	for i := range a.B {
		r = m.St.And(r, m.St.Eq(a.B[i], b.B[i]))
		if r.IsFalse() {
			return r
		}
	}
	return r
}

// eqT implements Go's == for values of static type t.
func (m *Machine) eqT(t types.Type, x, y Value) *smt.Term {
	st := m.St
	switch a := x.(type) {
	case *smt.Term:
		b := y.(*smt.Term)
		if t != nil && isFloat(t) {
			return st.FEq(a, b)
		}
		return st.Eq(a, b)
	case Str:
		return m.strEq(a, y.(Str))
	case *Value:
		b, ok := y.(*Value)
		if !ok {
			return st.False
		}
		return st.Bool(a == b)
	case *Map:
		b, _ := y.(*Map)
		return st.Bool(a == b)
	case *Closure:
		b, _ := y.(*Closure)
		if a != nil && b != nil {
			unsupportedf("comparison of non-nil funcs")
		}
		return st.Bool(a == b)
	case *Chan:
		b, _ := y.(*Chan)
		return st.Bool(a == b)
	case Slice:
		b := y.(Slice)
		if !a.Nil && !b.Nil {
			unsupportedf("comparison of non-nil slices")
		}
		return st.Bool(a.Nil && b.Nil)
	case Iface:
		b, ok := y.(Iface)
		if !ok {
			// comparing interface with concrete value: wrap
			unsupportedf("mixed interface comparison")
		}
		if a.T == nil || b.T == nil {
			return st.Bool(a.T == nil && b.T == nil)
		}
		if !identical(a.T, b.T) {
			return st.False
		}
		if !types.Comparable(a.T) {
			if _, isR := a.T.(rtypeMarker); !isR {
				m.goPanicf("runtime error: comparing uncomparable type %s", a.T)
			}
		}
		return m.eqT(a.T, a.V, b.V)
	case Struct:
		b := y.(Struct)
		r := st.True
		var su *types.Struct
		if t != nil {
			su, _ = t.Underlying().(*types.Struct)
		}
		for i := range a {
			var ft types.Type
			if su != nil {
				ft = su.Field(i).Type()
			}
			r = st.And(r, m.eqT(ft, a[i], b[i]))
		}
		return r
	case Array:
		b := y.(Array)
		r := st.True
		var et types.Type
		if t != nil {
			if au, ok := t.Underlying().(*types.Array); ok {
				et = au.Elem()
			}
		}
		for i := range a {
			r = st.And(r, m.eqT(et, a[i], b[i]))
		}
		return r
	case RType:
		b, ok := y.(RType)
		return st.Bool(ok && types.Identical(a.T, b.T))
	case TimeVal:
		b := y.(TimeVal)
		if a.Zero || b.Zero {
			return st.Bool(a.Zero && b.Zero)
		}
		return st.Eq(a.Nanos, b.Nanos)
	case nil:
		return st.Bool(y == nil)
	}
	unsupportedf("== on %T", x)
	return nil
}

func (m *Machine) convert(src, dst types.Type, v Value) Value {
	st := m.St
	su, du := src.Underlying(), dst.Underlying()
	// string <-> []byte / []rune, int -> string
	if db, ok := du.(*types.Basic); ok && db.Info()&types.IsString != 0 {
		switch x := v.(type) {
		case Str:
			return x
		case Slice:
			if es, ok := su.(*types.Slice); ok {
				if eb, ok := es.Elem().Underlying().(*types.Basic); ok && eb.Kind() == types.Uint8 {
					b := make([]*smt.Term, x.Len)
					for i := 0; i < x.Len; i++ {
						b[i] = x.A[i].(*smt.Term)
					}
					return Str{B: b}
				}
				// []rune
				var rs []rune
				for i := 0; i < x.Len; i++ {
					rs = append(rs, rune(m.concreteInt(x.A[i], "rune")))
				}
				return m.MkStr(string(rs))
			}
		case *smt.Term:
			return m.MkStr(string(rune(m.concreteInt(x, "rune to string"))))
		}
		unsupportedf("conversion %s -> string", src)
	}
	if ds, ok := du.(*types.Slice); ok {
		if x, ok := v.(Str); ok {
			eb := ds.Elem().Underlying().(*types.Basic)
			if eb.Kind() == types.Uint8 {
				a := make([]Value, len(x.B))
				for i, b := range x.B {
					a[i] = b
				}
				return Slice{A: a, Len: len(a)}
			}
			s, okc := x.Concrete()
			if !okc {
				unsupportedf("[]rune of symbolic string")
			}
			var a []Value
			for _, r := range s {
				a = append(a, st.BV(32, uint64(uint32(r))))
			}
			return Slice{A: a, Len: len(a)}
		}
		return v
	}
	sb, ok1 := su.(*types.Basic)
	db, ok2 := du.(*types.Basic)
	if !ok1 || !ok2 {
		// pointer<->unsafe.Pointer etc: pass through
		return v
	}
	if sb.Kind() == types.UnsafePointer || db.Kind() == types.UnsafePointer {
		if _, isT := v.(*smt.Term); isT {
			unsupportedf("uintptr <-> unsafe.Pointer conversion")
		}
		return v
	}
	x, ok := v.(*smt.Term)
	if !ok {
		return v
	}
	sF, dF := sb.Info()&types.IsFloat != 0, db.Info()&types.IsFloat != 0
	sw, dw := basicWidth(sb), basicWidth(db)
	switch {
	case sF && dF:
		if sw == dw {
			return x
		}
		if sw == 32 {
			return st.FConv(smt.FConvF32ToF64, x)
		}
		return st.FConv(smt.FConvF64ToF32, x)
	case !sF && dF:
		// integer -> float: widen to 64 bits first
		sg := sb.Info()&types.IsUnsigned == 0
		x64 := x
		if sw < 64 {
			if sg {
				x64 = st.SExt(x, 64)
			} else {
				x64 = st.ZExt(x, 64)
			}
		}
		switch {
		case sg && dw == 64:
			return st.FConv(smt.FConvS64ToF64, x64)
		case !sg && dw == 64:
			return st.FConv(smt.FConvU64ToF64, x64)
		case sg:
			return st.FConv(smt.FConvS64ToF32, x64)
		default:
			return st.FConv(smt.FConvU64ToF32, x64)
		}
	case sF && !dF:
		x64 := x
		if sw == 32 {
			x64 = st.FConv(smt.FConvF32ToF64, x)
		}
		var r *smt.Term
		if db.Info()&types.IsUnsigned == 0 {
			r = st.FConv(smt.FConvF64ToS64, x64)
		} else {
			r = st.FConv(smt.FConvF64ToU64, x64)
		}
		if dw < 64 {
			r = st.Extract(r, dw-1, 0)
		}
		return r
	}
	// integer -> integer
	if sw == dw {
		return x
	}
	if dw < sw {
		return st.Extract(x, dw-1, 0)
	}
	if sb.Info()&types.IsUnsigned == 0 {
		return st.SExt(x, dw)
	}
	return st.ZExt(x, dw)
}
