package sym

import (
	"fmt"
	"go/types"
	"path/filepath"
	"reflect"
	"regexp"
	"strconv"
	"strings"

	"golang.org/x/tools/go/ssa"

	"symgo/smt"
)

const ndPkgPath = "github.com/ostafen/clover/v2/zzverif/nd"

type Intrinsic func(m *Machine, args []Value, call *ssa.CallCommon) Value

func (m *Machine) callNd(fn *ssa.Function, args []Value) Value {
	name := fn.Name()
	str := func(i int) string {
		s, ok := args[i].(Str).Concrete()
		if !ok {
			unsupportedf("nd.%s: symbolic name", name)
		}
		return s
	}
	st := m.St
	switch name {
	case "Bool":
		return m.Nd(str(0), "bool", 0)
	case "Int64", "Int":
		return m.Nd(str(0), "int64", 64)
	case "Uint64", "Uint":
		return m.Nd(str(0), "uint64", 64)
	case "Int32":
		return m.Nd(str(0), "int32", 32)
	case "Uint32":
		return m.Nd(str(0), "uint32", 32)
	case "Int16":
		return m.Nd(str(0), "int16", 16)
	case "Uint16":
		return m.Nd(str(0), "uint16", 16)
	case "Int8":
		return m.Nd(str(0), "int8", 8)
	case "Byte", "Uint8":
		return m.Nd(str(0), "uint8", 8)
	case "Float64":
		t := m.Nd(str(0), "float64", 64)
		m.Assume(st.Not(st.FIsNaN(t)))
		return t
	case "Float32":
		t := m.Nd(str(0), "float32", 32)
		m.Assume(st.Not(st.FIsNaN(t)))
		return t
	case "TimeNanos":
		return TimeVal{Nanos: m.Nd(str(0), "timenanos", 64)}
	case "Choice":
		return st.BV(64, uint64(m.Choice(str(0), m.concreteInt(args[1], "nd.Choice n"))))
	case "Assume":
		m.Assume(args[0].(*smt.Term))
		return nil
	case "Assert":
		m.Assert(str(0), args[1].(*smt.Term))
		return nil
	case "Reach":
		m.Stats.Reached[str(0)]++
		return nil
	case "Note":
		m.pathNotes = append(m.pathNotes, str(0))
		return nil
	case "Observe":
		return nil
	case "Symbolic":
		return st.True
	case "FreezeDeep":
		m.freeze(args[0], str(1), true, map[interface{}]bool{})
		return nil
	case "FreezeShallow":
		m.freeze(args[0], str(1), false, map[interface{}]bool{})
		return nil
	case "FreezeGlobals":
		for g, cell := range m.globals {
			if g.Pkg != nil && m.P.isInterpPkg(g.Pkg.Pkg.Path()) && !strings.Contains(g.Pkg.Pkg.Path(), "/zzverif/") && !isHarnessGlobal(m, g) {
				m.freezeCell(cell, "global "+g.Pkg.Pkg.Path()+"."+g.Name())
				m.freeze(*cell, "global "+g.Name(), true, map[interface{}]bool{})
			}
		}
		return nil
	case "FrozenWrites":
		return st.BV(64, uint64(len(m.frozenWrites)))
	case "FrozenWriteNote":
		if len(m.frozenWrites) > 0 {
			return m.MkStr(m.frozenWrites[0])
		}
		return m.MkStr("")
	case "IsConcrete":
		// reports whether a scalar/string is fully concrete (harness optimisation hooks)
		switch x := args[0].(Iface).V.(type) {
		case *smt.Term:
			return st.Bool(x.IsConst())
		case Str:
			_, ok := x.Concrete()
			return st.Bool(ok)
		}
		return st.False
	}
	unsupportedf("unknown nd function %s", name)
	return nil
}

func isHarnessGlobal(m *Machine, g *ssa.Global) bool {
	pos := m.P.Fset.Position(g.Pos())
	return strings.Contains(pos.Filename, "zz_verif_")
}

func (m *Machine) freezeCell(p *Value, what string) {
	if m.frozen == nil {
		m.frozen = map[*Value]string{}
		m.frozenMaps = map[*Map]string{}
	}
	if p != nil {
		m.frozen[p] = what
	}
}

// freeze marks the memory reachable from v (deep) or just the pointee's own fields (shallow).
func (m *Machine) freeze(v Value, what string, deep bool, seen map[interface{}]bool) {
	if m.frozen == nil {
		m.frozen = map[*Value]string{}
		m.frozenMaps = map[*Map]string{}
	}
	switch x := v.(type) {
	case Iface:
		m.freeze(x.V, what, deep, seen)
	case *Value:
		if x == nil || seen[x] {
			return
		}
		seen[x] = true
		m.frozen[x] = what
		m.freezeAggregate(*x, what, deep, seen)
	case Struct, Array:
		m.freezeAggregate(x, what, deep, seen)
	case Slice:
		if !deep {
			return
		}
		for i := 0; i < x.Len; i++ {
			m.frozen[&x.A[i]] = what + "[]"
			m.freeze(x.A[i], what+"[]", deep, seen)
		}
	case *Map:
		if x == nil || seen[x] || !deep {
			return
		}
		seen[x] = true
		m.frozenMaps[x] = what
		for _, k := range x.Keys {
			e, _ := x.Get(m.keyString(k))
			m.freeze(e, what+"[k]", deep, seen)
		}
	case *Closure:
		if x != nil && deep {
			for _, e := range x.Env {
				m.freeze(e, what+".closure", deep, seen)
			}
		}
	}
}

func (m *Machine) freezeAggregate(v Value, what string, deep bool, seen map[interface{}]bool) {
	switch a := v.(type) {
	case Struct:
		for i := range a {
			m.frozen[&a[i]] = what
			if deep {
				m.freeze(a[i], what, deep, seen)
			} else {
				m.freezeAggregateShallow(a[i], what)
			}
		}
	case Array:
		for i := range a {
			m.frozen[&a[i]] = what
			if deep {
				m.freeze(a[i], what, deep, seen)
			}
		}
	default:
		if deep {
			m.freeze(v, what, deep, seen)
		}
	}
}

func (m *Machine) freezeAggregateShallow(v Value, what string) {
	if s, ok := v.(Struct); ok {
		for i := range s {
			m.frozen[&s[i]] = what
			m.freezeAggregateShallow(s[i], what)
		}
	}
}

func (m *Machine) intOf(v Value) int { return m.concreteInt(v, "intrinsic int argument") }

func (m *Machine) concStr(v Value, what string) string {
	s, ok := v.(Str).Concrete()
	if !ok {
		unsupportedf("%s: symbolic string", what)
	}
	return s
}

func (m *Machine) strSlice(ss []string) Slice {
	a := make([]Value, len(ss))
	for i, s := range ss {
		a[i] = m.MkStr(s)
	}
	return Slice{A: a, Len: len(a)}
}

func (m *Machine) sliceBytes(v Value) Str {
	s := v.(Slice)
	b := make([]*smt.Term, s.Len)
	for i := 0; i < s.Len; i++ {
		b[i] = s.A[i].(*smt.Term)
	}
	return Str{B: b}
}

func (m *Machine) bytesSlice(s Str) Slice {
	a := make([]Value, len(s.B))
	for i, b := range s.B {
		a[i] = b
	}
	return Slice{A: a, Len: len(a)}
}

func (m *Machine) hasPrefix(s, p Str) *smt.Term {
	if len(p.B) > len(s.B) {
		return m.St.False
	}
	return m.strEq(Str{B: s.B[:len(p.B)]}, p)
}

func (m *Machine) errNil() Value { return Iface{} }

func buildIntrinsics() map[string]Intrinsic {
	in := map[string]Intrinsic{}

	// ---- strings ----
	in["strings.Compare"] = func(m *Machine, a []Value, _ *ssa.CallCommon) Value {
		return m.strCompare(a[0].(Str), a[1].(Str))
	}
	in["strings.HasPrefix"] = func(m *Machine, a []Value, _ *ssa.CallCommon) Value {
		return m.hasPrefix(a[0].(Str), a[1].(Str))
	}
	in["strings.HasSuffix"] = func(m *Machine, a []Value, _ *ssa.CallCommon) Value {
		s, p := a[0].(Str), a[1].(Str)
		if len(p.B) > len(s.B) {
			return m.St.False
		}
		return m.strEq(Str{B: s.B[len(s.B)-len(p.B):]}, p)
	}
	in["strings.TrimLeft"] = func(m *Machine, a []Value, _ *ssa.CallCommon) Value {
		s := a[0].(Str)
		cut := m.concStr(a[1], "strings.TrimLeft cutset")
		i := 0
		for i < len(s.B) {
			match := m.St.False
			for j := 0; j < len(cut); j++ {
				match = m.St.Or(match, m.St.Eq(s.B[i], m.byteConst(cut[j])))
			}
			if !m.Branch(match) {
				break
			}
			i++
		}
		return Str{B: s.B[i:]}
	}
	in["strings.TrimPrefix"] = func(m *Machine, a []Value, _ *ssa.CallCommon) Value {
		s, p := a[0].(Str), a[1].(Str)
		if m.Branch(m.hasPrefix(s, p)) {
			return Str{B: s.B[len(p.B):]}
		}
		return s
	}
	in["strings.Split"] = func(m *Machine, a []Value, _ *ssa.CallCommon) Value {
		return m.strSlice(strings.Split(m.concStr(a[0], "strings.Split"), m.concStr(a[1], "strings.Split sep")))
	}
	in["strings.Join"] = func(m *Machine, a []Value, _ *ssa.CallCommon) Value {
		s := a[0].(Slice)
		sep := a[1].(Str)
		var out []*smt.Term
		for i := 0; i < s.Len; i++ {
			if i > 0 {
				out = append(out, sep.B...)
			}
			out = append(out, s.A[i].(Str).B...)
		}
		return Str{B: out}
	}
	in["strings.Contains"] = func(m *Machine, a []Value, _ *ssa.CallCommon) Value {
		return m.St.Bool(strings.Contains(m.concStr(a[0], "strings.Contains"), m.concStr(a[1], "strings.Contains")))
	}
	in["strings.Index"] = func(m *Machine, a []Value, _ *ssa.CallCommon) Value {
		return m.St.BV(64, uint64(int64(strings.Index(m.concStr(a[0], "strings.Index"), m.concStr(a[1], "strings.Index")))))
	}
	in["strings.ToLower"] = func(m *Machine, a []Value, _ *ssa.CallCommon) Value {
		return m.MkStr(strings.ToLower(m.concStr(a[0], "strings.ToLower")))
	}
	in["strings.ToUpper"] = func(m *Machine, a []Value, _ *ssa.CallCommon) Value {
		return m.MkStr(strings.ToUpper(m.concStr(a[0], "strings.ToUpper")))
	}
	in["strings.TrimSpace"] = func(m *Machine, a []Value, _ *ssa.CallCommon) Value {
		return m.MkStr(strings.TrimSpace(m.concStr(a[0], "strings.TrimSpace")))
	}
	in["strings.EqualFold"] = func(m *Machine, a []Value, _ *ssa.CallCommon) Value {
		return m.St.Bool(strings.EqualFold(m.concStr(a[0], "strings.EqualFold"), m.concStr(a[1], "strings.EqualFold")))
	}

	// ---- bytes ----
	in["bytes.Compare"] = func(m *Machine, a []Value, _ *ssa.CallCommon) Value {
		return m.strCompare(m.sliceBytes(a[0]), m.sliceBytes(a[1]))
	}
	in["bytes.Equal"] = func(m *Machine, a []Value, _ *ssa.CallCommon) Value {
		return m.strEq(m.sliceBytes(a[0]), m.sliceBytes(a[1]))
	}
	in["bytes.HasPrefix"] = func(m *Machine, a []Value, _ *ssa.CallCommon) Value {
		return m.hasPrefix(m.sliceBytes(a[0]), m.sliceBytes(a[1]))
	}
	in["bytes.TrimPrefix"] = func(m *Machine, a []Value, _ *ssa.CallCommon) Value {
		s := a[0].(Slice)
		p := m.sliceBytes(a[1])
		if m.Branch(m.hasPrefix(m.sliceBytes(s), p)) {
			return Slice{A: s.A[len(p.B):], Len: s.Len - len(p.B)}
		}
		return s
	}

	// ---- fmt / strconv / misc concrete ----
	in["fmt.Sprintf"] = func(m *Machine, a []Value, _ *ssa.CallCommon) Value {
		return m.sprintf(m.concStr(a[0], "fmt.Sprintf format"), a[1].(Slice), true)
	}
	in["fmt.Sprint"] = func(m *Machine, a []Value, _ *ssa.CallCommon) Value {
		s := a[0].(Slice)
		f := strings.Repeat("%v", s.Len)
		return m.sprintf(f, s)
	}
	in["fmt.Errorf"] = func(m *Machine, a []Value, _ *ssa.CallCommon) Value {
		f := m.concStr(a[0], "fmt.Errorf format")
		if strings.Contains(f, "%w") {
			unsupportedf("fmt.Errorf with %%w")
		}
		s := m.sprintf(f, a[1].(Slice))
		msg, _ := s.Concrete2()
		return m.newError(msg)
	}
	for _, n := range []string{"fmt.Println", "fmt.Printf", "fmt.Print", "log.Printf", "log.Println", "log.Print"} {
		in[n] = func(m *Machine, a []Value, _ *ssa.CallCommon) Value {
			return Tuple{m.St.BV(64, 0), Iface{}}
		}
	}
	in["log.Printf"] = func(m *Machine, a []Value, _ *ssa.CallCommon) Value { return nil }
	in["log.Println"] = in["log.Printf"]
	in["log.Print"] = in["log.Printf"]
	in["strconv.Itoa"] = func(m *Machine, a []Value, _ *ssa.CallCommon) Value {
		return m.MkStr(strconv.Itoa(m.intOf(a[0])))
	}
	in["strconv.Quote"] = func(m *Machine, a []Value, _ *ssa.CallCommon) Value {
		return m.MkStr(strconv.Quote(m.concStr(a[0], "strconv.Quote")))
	}
	in["path/filepath.Join"] = func(m *Machine, a []Value, _ *ssa.CallCommon) Value {
		s := a[0].(Slice)
		var parts []string
		for i := 0; i < s.Len; i++ {
			parts = append(parts, m.concStr(s.A[i], "filepath.Join"))
		}
		return m.MkStr(filepath.Join(parts...))
	}
	in["regexp.MatchString"] = func(m *Machine, a []Value, _ *ssa.CallCommon) Value {
		if subj, isStr := a[1].(Str); isStr {
			if _, conc := subj.Concrete(); !conc {
				// symbolic subject: only anchored-literal patterns are translated (^lit, lit$, ^lit$, .*)
				pat := m.concStr(a[0], "regexp pattern")
				lit := strings.TrimSuffix(strings.TrimPrefix(pat, "^"), "$")
				if pat == ".*" || pat == "" {
					return Tuple{m.St.True, Iface{}}
				}
				if regexp.QuoteMeta(lit) != lit || lit == "" || (!strings.HasPrefix(pat, "^") && !strings.HasSuffix(pat, "$")) {
					unsupportedf("regexp %q on a symbolic string", pat)
				}
				ls := m.MkStr(lit)
				var r *smt.Term
				switch {
				case strings.HasPrefix(pat, "^") && strings.HasSuffix(pat, "$"):
					r = m.strEq(subj, ls)
				case strings.HasPrefix(pat, "^"):
					r = m.hasPrefix(subj, ls)
				default:
					if len(ls.B) > len(subj.B) {
						r = m.St.False
					} else {
						r = m.strEq(Str{B: subj.B[len(subj.B)-len(ls.B):]}, ls)
					}
				}
				return Tuple{r, Iface{}}
			}
		}
		ok, err := regexp.MatchString(m.concStr(a[0], "regexp pattern"), m.concStr(a[1], "regexp subject"))
		if err != nil {
			return Tuple{m.St.False, m.newError(err.Error())}
		}
		return Tuple{m.St.Bool(ok), Iface{}}
	}

	// ---- errors ----
	in["errors.Is"] = func(m *Machine, a []Value, _ *ssa.CallCommon) Value {
		err, target := a[0].(Iface), a[1].(Iface)
		for depth := 0; depth < 16; depth++ {
			if err.T == nil || target.T == nil {
				return m.St.Bool(err.T == nil && target.T == nil)
			}
			if types.Comparable(target.T) && m.Branch(m.eqT(nil, err, target)) {
				return m.St.True
			}
			// Is(target) bool method
			if f := m.lookupMethod(err.T, "Is"); f != nil {
				if m.Branch(m.callClosure(&Closure{Fn: f}, []Value{copyVal(err.V), target}, nil).(*smt.Term)) {
					return m.St.True
				}
			}
			f := m.lookupMethod(err.T, "Unwrap")
			if f == nil {
				return m.St.False
			}
			r := m.callClosure(&Closure{Fn: f}, []Value{copyVal(err.V)}, nil)
			ni, ok := r.(Iface)
			if !ok {
				return m.St.False // Unwrap() []error not supported further
			}
			err = ni
		}
		unsupportedf("errors.Is: chain too long")
		return nil
	}

	// ---- sort ----
	in["sort.Slice"] = func(m *Machine, a []Value, _ *ssa.CallCommon) Value {
		s := a[0].(Iface).V.(Slice)
		less := a[1].(*Closure)
		lt := func(i, j int) bool {
			r := m.callClosure(less, []Value{m.St.BV(64, uint64(i)), m.St.BV(64, uint64(j))}, nil)
			return m.Branch(r.(*smt.Term))
		}
		for i := 1; i < s.Len; i++ {
			for j := i; j > 0 && lt(j, j-1); j-- {
				s.A[j], s.A[j-1] = s.A[j-1], s.A[j]
			}
		}
		return nil
	}
	in["sort.SliceStable"] = in["sort.Slice"]
	in["sort.Strings"] = func(m *Machine, a []Value, _ *ssa.CallCommon) Value {
		s := a[0].(Slice)
		for i := 1; i < s.Len; i++ {
			for j := i; j > 0 && m.Branch(m.strLess(s.A[j].(Str), s.A[j-1].(Str), false)); j-- {
				s.A[j], s.A[j-1] = s.A[j-1], s.A[j]
			}
		}
		return nil
	}

	// ---- math ----
	ident := func(m *Machine, a []Value, _ *ssa.CallCommon) Value { return a[0] }
	in["math.Float64bits"] = ident
	in["math.Float64frombits"] = ident
	in["math.Float32bits"] = ident
	in["math.Float32frombits"] = ident
	in["math.IsNaN"] = func(m *Machine, a []Value, _ *ssa.CallCommon) Value { return m.St.FIsNaN(a[0].(*smt.Term)) }
	in["math.IsInf"] = func(m *Machine, a []Value, _ *ssa.CallCommon) Value {
		f := a[0].(*smt.Term)
		sign := a[1].(*smt.Term)
		st := m.St
		pinf := st.Eq(f, st.BV(64, 0x7FF0000000000000))
		ninf := st.Eq(f, st.BV(64, 0xFFF0000000000000))
		zero := st.BV(64, 0)
		return st.Or(st.And(st.SLe(zero, sign), pinf), st.And(st.SLe(sign, zero), ninf))
	}
	in["math.Inf"] = func(m *Machine, a []Value, _ *ssa.CallCommon) Value {
		st := m.St
		return st.Ite(st.SLe(st.BV(64, 0), a[0].(*smt.Term)), st.BV(64, 0x7FF0000000000000), st.BV(64, 0xFFF0000000000000))
	}

	// ---- math/big (only NewFloat + Cmp, as used by compareNumbers) ----
	in["math/big.NewFloat"] = func(m *Machine, a []Value, _ *ssa.CallCommon) Value {
		f := a[0].(*smt.Term)
		if m.Branch(m.St.FIsNaN(f)) {
			m.goPanicf("big.NewFloat(NaN)")
		}
		cell := new(Value)
		*cell = bigFloat{f}
		return cell
	}
	in["(*math/big.Float).Cmp"] = func(m *Machine, a []Value, _ *ssa.CallCommon) Value {
		x := (*a[0].(*Value)).(bigFloat).bits
		y := (*a[1].(*Value)).(bigFloat).bits
		st := m.St
		return st.Ite(st.FLt(x, y), st.BV(64, ^uint64(0)), st.Ite(st.FEq(x, y), st.BV(64, 0), st.BV(64, 1)))
	}

	// ---- sync ----
	nop := func(m *Machine, a []Value, _ *ssa.CallCommon) Value { return nil }
	for _, n := range []string{"(*sync.Mutex).Lock", "(*sync.Mutex).Unlock", "(*sync.RWMutex).Lock", "(*sync.RWMutex).Unlock",
		"(*sync.RWMutex).RLock", "(*sync.RWMutex).RUnlock", "(*sync.WaitGroup).Add", "(*sync.WaitGroup).Done", "(*sync.WaitGroup).Wait"} {
		in[n] = nop
	}
	in["sync/atomic.CompareAndSwapUint32"] = func(m *Machine, a []Value, _ *ssa.CallCommon) Value {
		p := a[0].(*Value)
		if p == nil {
			m.goPanicf("nil pointer in atomic op")
		}
		if m.Branch(m.St.Eq((*p).(*smt.Term), a[1].(*smt.Term))) {
			*p = a[2]
			return m.St.True
		}
		return m.St.False
	}
	in["sync/atomic.LoadUint32"] = func(m *Machine, a []Value, _ *ssa.CallCommon) Value { return *(a[0].(*Value)) }
	in["sync/atomic.StoreUint32"] = func(m *Machine, a []Value, _ *ssa.CallCommon) Value { *(a[0].(*Value)) = a[1]; return nil }

	// ---- time ----
	in["(time.Time).UnixNano"] = func(m *Machine, a []Value, _ *ssa.CallCommon) Value {
		t := a[0].(TimeVal)
		if t.Zero {
			// time.Time{}.UnixNano() overflows int64; Go returns a fixed (undefined-by-doc) value
			return m.St.BV(64, zeroTimeUnixNanoU)
		}
		return t.Nanos
	}
	in["(time.Time).IsZero"] = func(m *Machine, a []Value, _ *ssa.CallCommon) Value { return m.St.Bool(a[0].(TimeVal).Zero) }
	tcmp := func(f func(m *Machine, x, y *smt.Term) *smt.Term) Intrinsic {
		return func(m *Machine, a []Value, _ *ssa.CallCommon) Value {
			x, y := a[0].(TimeVal), a[1].(TimeVal)
			if x.Zero || y.Zero {
				unsupportedf("comparison with zero time.Time")
			}
			return f(m, x.Nanos, y.Nanos)
		}
	}
	in["(time.Time).Before"] = tcmp(func(m *Machine, x, y *smt.Term) *smt.Term { return m.St.SLt(x, y) })
	in["(time.Time).After"] = tcmp(func(m *Machine, x, y *smt.Term) *smt.Term { return m.St.SLt(y, x) })
	in["(time.Time).Equal"] = tcmp(func(m *Machine, x, y *smt.Term) *smt.Term { return m.St.Eq(x, y) })
	in["(time.Time).Compare"] = tcmp(func(m *Machine, x, y *smt.Term) *smt.Term {
		st := m.St
		return st.Ite(st.SLt(x, y), st.BV(64, ^uint64(0)), st.Ite(st.Eq(x, y), st.BV(64, 0), st.BV(64, 1)))
	})
	in["time.Unix"] = func(m *Machine, a []Value, _ *ssa.CallCommon) Value {
		sec := a[0].(*smt.Term)
		if !sec.IsConst() || sec.C != 0 {
			unsupportedf("time.Unix with non-zero seconds")
		}
		return TimeVal{Nanos: a[1].(*smt.Term)}
	}
	in["(time.Time).UTC"] = func(m *Machine, a []Value, _ *ssa.CallCommon) Value { return a[0] }

	in["github.com/vmihailenco/msgpack/v5.RegisterExt"] = nop
	addReflectIntrinsics(in)
	return in
}

var zeroTimeUnixNanoU = func() uint64 { v := int64(-6795364578871345152); return uint64(v) }()

type bigFloat struct{ bits *smt.Term }

func (m *Machine) lookupMethod(t types.Type, name string) *ssa.Function {
	ms := m.P.Prog.MethodSets.MethodSet(t)
	for i := 0; i < ms.Len(); i++ {
		if ms.At(i).Obj().Name() == name {
			return m.P.Prog.MethodValue(ms.At(i))
		}
	}
	return nil
}

// goValue converts a concrete engine value to a native Go value for formatting.
func (m *Machine) goValue(v Value, t types.Type) (interface{}, bool) {
	switch x := v.(type) {
	case nil:
		return nil, true
	case Iface:
		if x.T == nil {
			return nil, true
		}
		// error / Stringer values: call the method
		if _, isBasic := x.T.Underlying().(*types.Basic); !isBasic {
			if f := m.lookupMethod(x.T, "Error"); f != nil {
				r := m.callClosure(&Closure{Fn: f}, []Value{copyVal(x.V)}, nil)
				if s, ok := r.(Str).Concrete2(); ok || true {
					return fmtString(s), true
				}
			}
		}
		return m.goValue(x.V, x.T)
	case Str:
		s, ok := x.Concrete()
		return s, ok
	case *smt.Term:
		if !x.IsConst() {
			return nil, false
		}
		if t != nil {
			if b, ok := t.Underlying().(*types.Basic); ok {
				switch {
				case b.Info()&types.IsBoolean != 0:
					return x.C == 1, true
				case b.Info()&types.IsFloat != 0:
					return smtFloat(x), true
				case b.Info()&types.IsUnsigned != 0:
					return x.C, true
				case b.Info()&types.IsInteger != 0:
					return int64(x.C<<(64-uint(x.S))) >> (64 - uint(x.S)), true
				}
			}
		}
		if x.S == 0 {
			return x.C == 1, true
		}
		return x.C, true
	case Slice:
		if t != nil {
			if st, ok := t.Underlying().(*types.Slice); ok {
				if b, ok := st.Elem().Underlying().(*types.Basic); ok && b.Kind() == types.Uint8 {
					s, ok := m.sliceBytes(x).Concrete()
					return []byte(s), ok
				}
			}
		}
	}
	return fmtString(fmt.Sprintf("<%T>", v)), true
}

type fmtString string

func (f fmtString) String() string { return string(f) }

func smtFloat(x *smt.Term) float64 {
	if x.S == 32 {
		return float64(float32frombits(uint32(x.C)))
	}
	return float64frombits(x.C)
}

// sprintf supports symbolic strings for %s / %v; everything else must be concrete.
func (m *Machine) sprintf(format string, args Slice, strict ...bool) Str {
	var out []*smt.Term
	argi := 0
	i := 0
	for i < len(format) {
		c := format[i]
		if c != '%' {
			out = append(out, m.byteConst(c))
			i++
			continue
		}
		j := i + 1
		for j < len(format) && strings.IndexByte("+-# 0123456789.", format[j]) >= 0 {
			j++
		}
		if j >= len(format) {
			out = append(out, m.byteConst('%'))
			break
		}
		verb := format[j]
		spec := format[i : j+1]
		i = j + 1
		if verb == '%' {
			out = append(out, m.byteConst('%'))
			continue
		}
		if argi >= args.Len {
			out = append(out, m.MkStr("%!"+string(verb)+"(MISSING)").B...)
			continue
		}
		av := args.A[argi]
		argi++
		ai, _ := av.(Iface)
		if s, ok := ai.V.(Str); ok && (verb == 's' || verb == 'v') && spec == "%"+string(verb) {
			out = append(out, s.B...)
			continue
		}
		if sl, ok := ai.V.(Slice); ok && verb == 's' && ai.T != nil {
			if st, ok := ai.T.Underlying().(*types.Slice); ok {
				if b, ok := st.Elem().Underlying().(*types.Basic); ok && b.Kind() == types.Uint8 {
					out = append(out, m.sliceBytes(sl).B...)
					continue
				}
			}
		}
		gv, ok := m.goValue(av, nil)
		if !ok {
			if len(strict) > 0 && strict[0] {
				unsupportedf("fmt.Sprintf(%q) with symbolic non-string argument", format)
			}
			out = append(out, m.MkStr("<sym>").B...)
			continue
		}
		out = append(out, m.MkStr(fmt.Sprintf(spec, gv)).B...)
	}
	return Str{B: out}
}

var _ = reflect.TypeOf
