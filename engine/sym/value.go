// Package sym: symbolic interpreter for go/ssa. Structure (lengths, dynamic
// types, pointers, map key sets) is concrete; scalar leaves are SMT terms.
package sym

import (
	"fmt"
	"go/types"
	"strings"

	"golang.org/x/tools/go/ssa"

	"symgo/smt"
)

// Value is one of:
//
//	*smt.Term      bool / integer / float (as bits)
//	Str            string (concrete length, symbolic bytes)
//	Struct, Array  aggregates (value semantics: copied on load/store)
//	Slice          slice header over a shared backing []Value
//	*Value         pointer (nil pointer = (*Value)(nil))
//	*Map           map (nil map = (*Map)(nil))
//	Iface          interface value (nil interface = Iface{})
//	*Closure       function value (nil func = (*Closure)(nil))
//	Tuple          multiple results
//	TimeVal        opaque time.Time
//	RVal, RType    reflect.Value / reflect.Type
//	*Chan          channel placeholder
type Value interface{}

type Str struct{ B []*smt.Term }

type Struct []Value
type Array []Value

type Slice struct {
	A   []Value // backing, len(A) = capacity seen from this header
	Len int
	Nil bool
}

type Map struct {
	Keys []Value          // insertion order (concrete keys)
	M    map[string]Value // canonical key string -> value
	KS   map[string]Value // canonical key string -> key value
}

type Iface struct {
	T types.Type // dynamic type; nil for nil interface
	V Value
}

type Closure struct {
	Fn   *ssa.Function
	Env  []Value
	Nat  func(m *Machine, args []Value) Value // native function value
	Name string
}

type Tuple []Value

type TimeVal struct {
	Nanos *smt.Term // BV64 unix nanoseconds
	Zero  bool      // the zero time.Time (year 1)
}

type RVal struct {
	T     types.Type // static type of the reflected value; nil => invalid Value
	V     Value
	Addr  *Value
}

type RType struct{ T types.Type }

type Chan struct {
	Cap    int
	Buf    []Value
	Closed bool
}

// MapIter is the state of a Range over a map or string.
type MapIter struct {
	M    *Map
	Keys []Value
	S    Str
	IsS  bool
	I    int
}

func (s Str) Concrete() (string, bool) {
	var b strings.Builder
	for _, t := range s.B {
		if !t.IsConst() {
			return "", false
		}
		b.WriteByte(byte(t.C))
	}
	return b.String(), true
}

func (m *Machine) MkStr(s string) Str {
	b := make([]*smt.Term, len(s))
	for i := 0; i < len(s); i++ {
		b[i] = m.byteConst(s[i])
	}
	return Str{B: b}
}

func (m *Machine) byteConst(c byte) *smt.Term {
	if t := m.byteTab[c]; t != nil {
		return t
	}
	t := m.St.BV(8, uint64(c))
	m.byteTab[c] = t
	return t
}

func NewMap() *Map {
	return &Map{M: map[string]Value{}, KS: map[string]Value{}}
}

type unsupported struct{ msg string }

func unsupportedf(format string, args ...interface{}) {
	panic(unsupported{fmt.Sprintf(format, args...)})
}

// keyString gives the canonical string of a concrete map key.
func (m *Machine) keyString(k Value) string {
	switch k := k.(type) {
	case *smt.Term:
		if !k.IsConst() {
			unsupportedf("symbolic map key (scalar)")
		}
		return fmt.Sprintf("i%d:%x", k.S, k.C)
	case Str:
		s, ok := k.Concrete()
		if !ok {
			unsupportedf("symbolic map key (string)")
		}
		return "s" + s
	case *Value:
		return fmt.Sprintf("p%p", k)
	case Iface:
		if k.T == nil {
			return "nil"
		}
		return "I" + k.T.String() + "/" + m.keyString(k.V)
	case Struct:
		var b strings.Builder
		b.WriteString("{")
		for _, f := range k {
			b.WriteString(m.keyString(f))
			b.WriteString(",")
		}
		b.WriteString("}")
		return b.String()
	case Array:
		var b strings.Builder
		b.WriteString("[")
		for _, f := range k {
			b.WriteString(m.keyString(f))
			b.WriteString(",")
		}
		b.WriteString("]")
		return b.String()
	case *Map:
		return fmt.Sprintf("m%p", k)
	case *Closure:
		return fmt.Sprintf("f%p", k)
	case RType:
		return "rt" + k.T.String()
	}
	unsupportedf("map key of kind %T", k)
	return ""
}

func (mp *Map) Get(ks string) (Value, bool) {
	v, ok := mp.M[ks]
	return v, ok
}

func (mp *Map) Set(ks string, k, v Value) {
	if _, ok := mp.M[ks]; !ok {
		mp.Keys = append(mp.Keys, k)
		mp.KS[ks] = k
	}
	mp.M[ks] = v
}

func (m *Machine) mapDelete(mp *Map, k Value) {
	ks := m.keyString(k)
	if _, ok := mp.M[ks]; !ok {
		return
	}
	delete(mp.M, ks)
	delete(mp.KS, ks)
	for i, kk := range mp.Keys {
		if m.keyString(kk) == ks {
			mp.Keys = append(mp.Keys[:i:i], mp.Keys[i+1:]...)
			break
		}
	}
}

func isNamed(t types.Type, pkg, name string) bool {
	n, ok := types.Unalias(t).(*types.Named)
	if !ok {
		return false
	}
	o := n.Obj()
	return o.Name() == name && o.Pkg() != nil && o.Pkg().Path() == pkg
}

// Zero returns the zero value of type t.
func (m *Machine) Zero(t types.Type) Value {
	if isNamed(t, "time", "Time") {
		return TimeVal{Nanos: m.St.BV(64, 0), Zero: true}
	}
	if isNamed(t, "reflect", "Value") {
		return RVal{}
	}
	switch u := t.Underlying().(type) {
	case *types.Basic:
		switch {
		case u.Kind() == types.UnsafePointer:
			return (*Value)(nil)
		case u.Info()&types.IsBoolean != 0:
			return m.St.False
		case u.Info()&types.IsString != 0:
			return Str{}
		case u.Info()&types.IsComplex != 0:
			unsupportedf("complex numbers")
		case u.Kind() == types.UntypedNil:
			return nil
		default:
			return m.St.BV(basicWidth(u), 0)
		}
	case *types.Struct:
		s := make(Struct, u.NumFields())
		for i := range s {
			s[i] = m.Zero(u.Field(i).Type())
		}
		return s
	case *types.Array:
		a := make(Array, int(u.Len()))
		for i := range a {
			a[i] = m.Zero(u.Elem())
		}
		return a
	case *types.Pointer:
		return (*Value)(nil)
	case *types.Slice:
		return Slice{Nil: true}
	case *types.Map:
		return (*Map)(nil)
	case *types.Interface:
		return Iface{}
	case *types.Signature:
		return (*Closure)(nil)
	case *types.Chan:
		return (*Chan)(nil)
	case *types.Tuple:
		tp := make(Tuple, u.Len())
		for i := range tp {
			tp[i] = m.Zero(u.At(i).Type())
		}
		return tp
	}
	unsupportedf("zero value of %s", t)
	return nil
}

func basicWidth(b *types.Basic) int {
	switch b.Kind() {
	case types.Bool, types.UntypedBool:
		return 0
	case types.Int8, types.Uint8:
		return 8
	case types.Int16, types.Uint16:
		return 16
	case types.Int32, types.Uint32, types.Float32:
		return 32
	case types.Int, types.Uint, types.Int64, types.Uint64, types.Uintptr, types.Float64,
		types.UntypedInt, types.UntypedFloat, types.UntypedRune:
		return 64
	}
	unsupportedf("width of basic type %s", b)
	return 0
}

func isSigned(t types.Type) bool {
	b, ok := t.Underlying().(*types.Basic)
	return ok && b.Info()&types.IsInteger != 0 && b.Info()&types.IsUnsigned == 0
}

func isFloat(t types.Type) bool {
	b, ok := t.Underlying().(*types.Basic)
	return ok && b.Info()&types.IsFloat != 0
}

func isInteger(t types.Type) bool {
	b, ok := t.Underlying().(*types.Basic)
	return ok && b.Info()&types.IsInteger != 0
}

func isString(t types.Type) bool {
	b, ok := t.Underlying().(*types.Basic)
	return ok && b.Info()&types.IsString != 0
}

// copyVal implements value semantics for aggregates.
func copyVal(v Value) Value {
	switch v := v.(type) {
	case Struct:
		c := make(Struct, len(v))
		for i := range v {
			c[i] = copyVal(v[i])
		}
		return c
	case Array:
		c := make(Array, len(v))
		for i := range v {
			c[i] = copyVal(v[i])
		}
		return c
	case Tuple:
		c := make(Tuple, len(v))
		copy(c, v)
		return c
	}
	return v
}

// storeInto writes v into the cell, element-wise for aggregates so that
// interior pointers (FieldAddr/IndexAddr) stay valid.
func storeInto(addr *Value, v Value) {
	switch rhs := v.(type) {
	case Struct:
		if lhs, ok := (*addr).(Struct); ok && len(lhs) == len(rhs) {
			for i := range lhs {
				storeInto(&lhs[i], rhs[i])
			}
			return
		}
		*addr = copyVal(rhs)
	case Array:
		if lhs, ok := (*addr).(Array); ok && len(lhs) == len(rhs) {
			for i := range lhs {
				storeInto(&lhs[i], rhs[i])
			}
			return
		}
		*addr = copyVal(rhs)
	default:
		*addr = v
	}
}
