package sym

import (
	"fmt"
	"go/constant"
	"go/token"
	"go/types"
	"math"
	"strings"

	"golang.org/x/tools/go/ssa"

	"symgo/smt"
)

type frame struct {
	fn     *ssa.Function
	info   *fnInfo
	regs   []Value
	defers []deferred
	block  *ssa.BasicBlock
	prev   *ssa.BasicBlock
	result Value
}

type deferred struct {
	fnv  Value
	args []Value
	call *ssa.CallCommon
}

func (m *Machine) get(fr *frame, v ssa.Value) Value {
	switch v := v.(type) {
	case *ssa.Const:
		return m.constVal(v)
	case *ssa.Global:
		return m.globalAddr(v)
	case *ssa.Function:
		return &Closure{Fn: v}
	case *ssa.Builtin:
		return &Closure{Name: "builtin:" + v.Name()}
	}
	i, ok := fr.info.idx[v]
	if !ok {
		panic(fmt.Sprintf("symgo: no register for %s in %s", v.Name(), fr.fn))
	}
	return fr.regs[i]
}

func (m *Machine) set(fr *frame, v ssa.Value, x Value) {
	fr.regs[fr.info.idx[v]] = x
}

func (m *Machine) constVal(c *ssa.Const) Value {
	t := c.Type()
	if c.Value == nil {
		return m.Zero(t)
	}
	if isNamed(t, "time", "Time") {
		return m.Zero(t)
	}
	switch u := t.Underlying().(type) {
	case *types.Basic:
		switch {
		case u.Info()&types.IsBoolean != 0:
			return m.St.Bool(constant.BoolVal(c.Value))
		case u.Info()&types.IsString != 0:
			return m.MkStr(constant.StringVal(c.Value))
		case u.Info()&types.IsFloat != 0:
			f, _ := constant.Float64Val(c.Value)
			if u.Kind() == types.Float32 {
				return m.St.BV(32, uint64(math.Float32bits(float32(f))))
			}
			return m.St.BV(64, math.Float64bits(f))
		case u.Info()&types.IsInteger != 0:
			w := basicWidth(u)
			if u.Info()&types.IsUnsigned != 0 {
				return m.St.BV(w, c.Uint64())
			}
			return m.St.BV(w, uint64(c.Int64()))
		}
	case *types.Interface:
		// typed constant converted to interface cannot occur; nil handled above
	}
	unsupportedf("constant %s of type %s", c, t)
	return nil
}

func (m *Machine) globalAddr(g *ssa.Global) *Value {
	if p, ok := m.globals[g]; ok {
		return p
	}
	elem := g.Type().(*types.Pointer).Elem()
	cell := new(Value)
	path := ""
	if g.Pkg != nil {
		path = g.Pkg.Pkg.Path()
	}
	if m.P.isInterpPkg(path) {
		*cell = m.Zero(elem)
	} else {
		// variables of packages whose initialisers are not executed
		full := path + "." + g.Name()
		if types.Identical(elem, types.Universe.Lookup("error").Type()) {
			*cell = m.newError(full)
		} else if lazyZeroGlobals[full] {
			*cell = m.Zero(elem)
		} else {
			unsupportedf("read of uninitialised global %s", full)
		}
	}
	m.globals[g] = cell
	return cell
}

var lazyZeroGlobals = map[string]bool{
	"github.com/dgraph-io/badger/v4.DefaultIteratorOptions": true,
}

// newError builds an *errors.errorString with the given text.
func (m *Machine) newError(msg string) Value {
	ep := m.P.Pkgs["errors"]
	tn := ep.Members["errorString"].(*ssa.Type)
	cell := new(Value)
	*cell = Struct{m.MkStr(msg)}
	return Iface{T: types.NewPointer(tn.Type()), V: cell}
}

func (m *Machine) initPackages() {
	for path, pk := range m.P.Pkgs {
		if !m.P.isInterpPkg(path) {
			continue
		}
		_ = pk
	}
	// deterministic order: run init of every interpreted package; the init
	// guard makes repeated calls harmless
	for _, path := range m.P.sortedInterpPkgs() {
		pk := m.P.Pkgs[path]
		if f := pk.Func("init"); f != nil {
			m.callFunction(f, nil)
		}
	}
}

func (p *Program) sortedInterpPkgs() []string {
	p.infoMu.Lock()
	defer p.infoMu.Unlock()
	if p.interpPkgs != nil {
		return p.interpPkgs
	}
	var out []string
	for path := range p.Pkgs {
		if p.isInterpPkg(path) {
			out = append(out, path)
		}
	}
	sortStrings(out)
	p.interpPkgs = out
	return out
}

func (m *Machine) at(p token.Pos) string {
	if !p.IsValid() {
		return "?"
	}
	ps := m.P.Fset.Position(p)
	return fmt.Sprintf("%s:%d", ps.Filename, ps.Line)
}

func (m *Machine) goPanicf(format string, args ...interface{}) {
	panic(goPanic{msg: fmt.Sprintf(format, args...)})
}

// callFunction interprets fn with the given arguments (params then free vars are set by caller).
func (m *Machine) callFunction(fn *ssa.Function, args []Value) Value {
	return m.callClosure(&Closure{Fn: fn}, args, nil)
}

func (m *Machine) callClosure(c *Closure, args []Value, site *ssa.CallCommon) Value {
	if c == nil {
		m.goPanicf("call of nil function")
	}
	if c.Nat != nil {
		return c.Nat(m, args)
	}
	fn := c.Fn
	if fn == nil {
		unsupportedf("call of %s as a value", c.Name)
	}
	// redirects and intrinsics by full name
	name := fn.String()
	if fn.Origin() != nil {
		name = fn.Origin().String()
	}
	if rn, ok := m.P.Redirects[name]; ok {
		rf := m.P.FuncByName(rn)
		if rf == nil {
			unsupportedf("redirect target %s not found", rn)
		}
		if rf != fn {
			m.Stats.FuncsHit["stub:"+rn]++
			return m.callClosure(&Closure{Fn: rf}, args, site)
		}
	}
	if in, ok := m.intr[name]; ok {
		m.Stats.FuncsHit["intrinsic:"+name]++
		return in(m, args, site)
	}
	if fn.Pkg != nil && fn.Pkg.Pkg.Path() == ndPkgPath && len(fn.Blocks) == 0 {
		return m.callNd(fn, args)
	}
	if len(fn.Blocks) == 0 {
		unsupportedf("call of body-less function %s", name)
	}
	if fn.Name() == "init" && fn.Pkg != nil && !m.P.isInterpPkg(fn.Pkg.Pkg.Path()) && fn.Signature.Recv() == nil && fn.Parent() == nil {
		return nil // initialisers of non-interpreted packages are not run
	}
	m.Stats.FuncsHit[name]++
	m.depth++
	if m.depth > m.Lim.MaxCallDepth {
		panic(budgetHit{"call depth in " + name})
	}
	defer func() { m.depth-- }()

	fr := &frame{fn: fn, info: m.P.infoFor(fn)}
	fr.regs = make([]Value, fr.info.n)
	if len(args) != len(fn.Params) {
		panic(fmt.Sprintf("symgo: %s called with %d args, wants %d", name, len(args), len(fn.Params)))
	}
	for i, p := range fn.Params {
		fr.regs[fr.info.idx[p]] = args[i]
	}
	for i, fv := range fn.FreeVars {
		fr.regs[fr.info.idx[fv]] = c.Env[i]
	}
	fr.block = fn.Blocks[0]
	for fr.block != nil {
		m.runBlock(fr)
	}
	return fr.result
}

func (m *Machine) runDefers(fr *frame) {
	for len(fr.defers) > 0 {
		d := fr.defers[len(fr.defers)-1]
		fr.defers = fr.defers[:len(fr.defers)-1]
		m.invoke(d.fnv, d.args, d.call)
	}
}

func (m *Machine) runBlock(fr *frame) {
	b := fr.block
	for _, ins := range b.Instrs {
		m.steps++
		if m.steps > m.Lim.MaxSteps {
			panic(budgetHit{"steps"})
		}
		switch ins := ins.(type) {
		case *ssa.DebugRef:
		case *ssa.Phi:
			for i, pred := range b.Preds {
				if pred == fr.prev {
					m.set(fr, ins, m.get(fr, ins.Edges[i]))
					break
				}
			}
		case *ssa.Alloc:
			cell := new(Value)
			*cell = m.Zero(ins.Type().(*types.Pointer).Elem())
			m.set(fr, ins, cell)
		case *ssa.UnOp:
			m.set(fr, ins, m.unop(fr, ins))
		case *ssa.BinOp:
			m.set(fr, ins, m.binop(ins.Op, ins.X.Type(), m.get(fr, ins.X), m.get(fr, ins.Y), ins.Y.Type()))
		case *ssa.Call:
			fnv, args := m.prepareCall(fr, &ins.Call)
			m.set(fr, ins, m.invoke(fnv, args, &ins.Call))
		case *ssa.ChangeInterface:
			m.set(fr, ins, m.get(fr, ins.X))
		case *ssa.ChangeType:
			m.set(fr, ins, m.get(fr, ins.X))
		case *ssa.Convert:
			m.set(fr, ins, m.convert(ins.X.Type(), ins.Type(), m.get(fr, ins.X)))
		case *ssa.Extract:
			m.set(fr, ins, m.get(fr, ins.Tuple).(Tuple)[ins.Index])
		case *ssa.Field:
			m.set(fr, ins, copyVal(m.get(fr, ins.X).(Struct)[ins.Field]))
		case *ssa.FieldAddr:
			p := m.get(fr, ins.X).(*Value)
			if p == nil {
				m.goPanicf("nil pointer dereference (field %d) at %s", ins.Field, m.at(ins.Pos()))
			}
			s, ok := (*p).(Struct)
			if !ok {
				unsupportedf("field address into opaque value %T (%s) at %s", *p, ins.X.Type(), m.at(ins.Pos()))
			}
			m.set(fr, ins, &s[ins.Field])
		case *ssa.Index:
			m.set(fr, ins, m.indexOp(fr, ins))
		case *ssa.IndexAddr:
			m.set(fr, ins, m.indexAddr(fr, ins))
		case *ssa.Lookup:
			m.set(fr, ins, m.lookup(fr, ins))
		case *ssa.MakeClosure:
			c := &Closure{Fn: ins.Fn.(*ssa.Function)}
			for _, b := range ins.Bindings {
				c.Env = append(c.Env, m.get(fr, b))
			}
			m.set(fr, ins, c)
		case *ssa.MakeInterface:
			m.set(fr, ins, Iface{T: ins.X.Type(), V: copyVal(m.get(fr, ins.X))})
		case *ssa.MakeMap:
			m.set(fr, ins, NewMap())
		case *ssa.MakeChan:
			m.set(fr, ins, &Chan{Cap: m.concreteInt(m.get(fr, ins.Size), "chan size")})
		case *ssa.MakeSlice:
			n := m.concreteInt(m.get(fr, ins.Len), "make len")
			c := m.concreteInt(m.get(fr, ins.Cap), "make cap")
			if n < 0 || c < n {
				m.goPanicf("makeslice: len out of range")
			}
			et := ins.Type().Underlying().(*types.Slice).Elem()
			a := make([]Value, c)
			for i := range a {
				a[i] = m.Zero(et)
			}
			m.set(fr, ins, Slice{A: a, Len: n})
		case *ssa.MapUpdate:
			mp := m.get(fr, ins.Map).(*Map)
			if mp == nil {
				m.goPanicf("assignment to entry in nil map at %s", m.at(ins.Pos()))
			}
			k := m.get(fr, ins.Key)
			if m.frozenMaps != nil {
				if w, ok := m.frozenMaps[mp]; ok {
					m.frozenWrites = append(m.frozenWrites, "map update of "+w+" at "+m.at(ins.Pos()))
				}
			}
			mp.Set(m.keyString(k), k, copyVal(m.get(fr, ins.Value)))
		case *ssa.Range:
			m.set(fr, ins, m.rangeOp(m.get(fr, ins.X)))
		case *ssa.Next:
			m.set(fr, ins, m.nextOp(ins, m.get(fr, ins.Iter).(*MapIter)))
		case *ssa.Slice:
			m.set(fr, ins, m.sliceOp(fr, ins))
		case *ssa.Store:
			p := m.get(fr, ins.Addr).(*Value)
			if p == nil {
				m.goPanicf("nil pointer dereference (store) at %s", m.at(ins.Pos()))
			}
			if m.frozen != nil {
				if w, ok := m.frozen[p]; ok {
					m.frozenWrites = append(m.frozenWrites, "store to "+w+" at "+m.at(ins.Pos()))
				}
			}
			storeInto(p, m.get(fr, ins.Val))
		case *ssa.TypeAssert:
			m.set(fr, ins, m.typeAssert(ins, m.get(fr, ins.X)))
		case *ssa.Defer:
			fnv, args := m.prepareCall(fr, &ins.Call)
			fr.defers = append(fr.defers, deferred{fnv, args, &ins.Call})
		case *ssa.RunDefers:
			m.runDefers(fr)
		case *ssa.Go:
			// goroutines are not started (only badger's background GC loop is ever spawned by the encoded code)
			m.Stats.FuncsHit["not-started:go "+ins.Call.Value.Name()+" at "+m.at(ins.Pos())]++
		case *ssa.Select:
			unsupportedf("select at %s", m.at(ins.Pos()))
		case *ssa.Send:
			// goroutines are never started, so only buffered sends can complete
			ch, _ := m.get(fr, ins.Chan).(*Chan)
			if ch == nil {
				unsupportedf("send on nil channel (blocks forever) at %s", m.at(ins.Pos()))
			}
			if ch.Closed {
				m.goPanicf("send on closed channel at %s", m.at(ins.Pos()))
			}
			if len(ch.Buf) >= ch.Cap {
				unsupportedf("blocking channel send at %s (no goroutine is running to receive)", m.at(ins.Pos()))
			}
			ch.Buf = append(ch.Buf, m.get(fr, ins.X))
		case *ssa.Panic:
			v := m.get(fr, ins.X)
			m.goPanicf("panic(%s) at %s", m.describe(v), m.at(ins.Pos()))
		case *ssa.If:
			c := m.get(fr, ins.Cond).(*smt.Term)
			fr.prev = b
			if m.Branch(c) {
				fr.block = b.Succs[0]
			} else {
				fr.block = b.Succs[1]
			}
			return
		case *ssa.Jump:
			fr.prev = b
			fr.block = b.Succs[0]
			return
		case *ssa.Return:
			switch len(ins.Results) {
			case 0:
			case 1:
				fr.result = m.get(fr, ins.Results[0])
			default:
				t := make(Tuple, len(ins.Results))
				for i, r := range ins.Results {
					t[i] = m.get(fr, r)
				}
				fr.result = t
			}
			fr.block = nil
			return
		default:
			unsupportedf("instruction %T at %s", ins, m.at(ins.Pos()))
		}
	}
	unsupportedf("block without terminator in %s", fr.fn)
}

func (m *Machine) describe(v Value) string {
	switch v := v.(type) {
	case Iface:
		if v.T == nil {
			return "nil"
		}
		return v.T.String() + ":" + m.describe(v.V)
	case Str:
		if s, ok := v.Concrete(); ok {
			return fmt.Sprintf("%q", s)
		}
		return fmt.Sprintf("<string len %d>", len(v.B))
	case *smt.Term:
		if v.IsConst() {
			return fmt.Sprintf("%d", v.C)
		}
		return "<sym>"
	case *Value:
		if v == nil {
			return "nil"
		}
		return "&" + m.describe(*v)
	case Struct:
		var parts []string
		for _, f := range v {
			parts = append(parts, m.describe(f))
		}
		return "{" + strings.Join(parts, ",") + "}"
	}
	return fmt.Sprintf("%T", v)
}

func (m *Machine) concreteInt(v Value, what string) int {
	t, ok := v.(*smt.Term)
	if !ok {
		unsupportedf("%s: not a scalar", what)
	}
	if !t.IsConst() {
		unsupportedf("%s: symbolic", what)
	}
	return int(int64(t.C<<(64-uint(t.S))) >> (64 - uint(t.S)))
}

// concretizeIndex turns an index term into a concrete value in [0,n) by
// forking over the feasible values; out-of-range is a Go panic.
func (m *Machine) concretizeIndex(t *smt.Term, n int, signed bool, what string) int {
	if t.IsConst() {
		var v int64
		if signed {
			v = int64(t.C<<(64-uint(t.S))) >> (64 - uint(t.S))
		} else {
			v = int64(t.C)
			if t.C > math.MaxInt64 {
				v = -1
			}
		}
		if v < 0 || v >= int64(n) {
			m.goPanicf("index out of range [%d] with length %d (%s)", v, n, what)
		}
		return int(v)
	}
	w := int(t.S)
	for k := 0; k < n; k++ {
		if m.Branch(m.St.Eq(t, m.St.BV(w, uint64(k)))) {
			return k
		}
	}
	m.goPanicf("index out of range (symbolic) with length %d (%s)", n, what)
	return 0
}

func (m *Machine) unop(fr *frame, ins *ssa.UnOp) Value {
	x := m.get(fr, ins.X)
	switch ins.Op {
	case token.MUL:
		p := x.(*Value)
		if p == nil {
			m.goPanicf("nil pointer dereference (load) at %s", m.at(ins.Pos()))
		}
		return copyVal(*p)
	case token.NOT:
		return m.St.Not(x.(*smt.Term))
	case token.SUB:
		t := x.(*smt.Term)
		if isFloat(ins.X.Type()) {
			return m.St.FArith(smt.FNegK, t)
		}
		return m.St.Neg(t)
	case token.XOR:
		return m.St.BNot(x.(*smt.Term))
	case token.ARROW:
		unsupportedf("channel receive at %s", m.at(ins.Pos()))
	}
	unsupportedf("unop %s", ins.Op)
	return nil
}

func (m *Machine) indexOp(fr *frame, ins *ssa.Index) Value {
	x := m.get(fr, ins.X)
	idx := m.get(fr, ins.Index).(*smt.Term)
	sg := isSigned(ins.Index.Type())
	switch x := x.(type) {
	case Array:
		return copyVal(x[m.concretizeIndex(idx, len(x), sg, "array")])
	case Str:
		return x.B[m.concretizeIndex(idx, len(x.B), sg, "string")]
	}
	unsupportedf("index on %T", x)
	return nil
}

func (m *Machine) indexAddr(fr *frame, ins *ssa.IndexAddr) Value {
	x := m.get(fr, ins.X)
	idx := m.get(fr, ins.Index).(*smt.Term)
	sg := isSigned(ins.Index.Type())
	switch x := x.(type) {
	case Slice:
		i := m.concretizeIndex(idx, x.Len, sg, "slice at "+m.at(ins.Pos()))
		return &x.A[i]
	case *Value:
		if x == nil {
			m.goPanicf("nil pointer dereference (array index) at %s", m.at(ins.Pos()))
		}
		a := (*x).(Array)
		i := m.concretizeIndex(idx, len(a), sg, "array")
		return &a[i]
	}
	unsupportedf("indexaddr on %T", x)
	return nil
}

func (m *Machine) lookup(fr *frame, ins *ssa.Lookup) Value {
	x := m.get(fr, ins.X)
	k := m.get(fr, ins.Index)
	switch x := x.(type) {
	case Str:
		idx := k.(*smt.Term)
		return x.B[m.concretizeIndex(idx, len(x.B), isSigned(ins.Index.Type()), "string")]
	case *Map:
		var v Value
		ok := false
		if x != nil {
			v, ok = x.Get(m.keyString(k))
		}
		if !ok {
			v = m.Zero(ins.X.Type().Underlying().(*types.Map).Elem())
		} else {
			v = copyVal(v)
		}
		if ins.CommaOk {
			return Tuple{v, m.St.Bool(ok)}
		}
		return v
	}
	unsupportedf("lookup on %T", x)
	return nil
}

func (m *Machine) rangeOp(x Value) Value {
	switch x := x.(type) {
	case *Map:
		it := &MapIter{M: x}
		if x != nil {
			it.Keys = append([]Value(nil), x.Keys...)
		}
		return it
	case Str:
		return &MapIter{S: x, IsS: true}
	}
	unsupportedf("range over %T", x)
	return nil
}

func (m *Machine) nextOp(ins *ssa.Next, it *MapIter) Value {
	if ins.IsString {
		if it.I >= len(it.S.B) {
			return Tuple{m.St.False, m.St.BV(64, 0), m.St.BV(32, 0)}
		}
		b := it.S.B[it.I]
		if !b.IsConst() {
			// a symbolic byte is treated as a one-byte rune only if provably ASCII
			if !m.Branch(m.St.ULt(b, m.St.BV(8, 0x80))) {
				unsupportedf("range over string with symbolic non-ASCII byte")
			}
			i := it.I
			it.I++
			return Tuple{m.St.True, m.St.BV(64, uint64(i)), m.St.ZExt(b, 32)}
		}
		s, _ := Str{B: it.S.B[it.I:]}.Concrete2()
		i := it.I
		for _, r := range s {
			n := len(string(r))
			if r == 0xFFFD {
				n = 1
			}
			it.I += n
			return Tuple{m.St.True, m.St.BV(64, uint64(i)), m.St.BV(32, uint64(uint32(r)))}
		}
	}
	for it.I < len(it.Keys) {
		k := it.Keys[it.I]
		it.I++
		v, ok := it.M.Get(m.keyString(k))
		if !ok {
			continue // deleted during iteration
		}
		return Tuple{m.St.True, k, copyVal(v)}
	}
	mt := ins.Iter.(*ssa.Range).X.Type().Underlying().(*types.Map)
	return Tuple{m.St.False, m.Zero(mt.Key()), m.Zero(mt.Elem())}
}

// Concrete2 returns the longest concrete prefix.
func (s Str) Concrete2() (string, bool) {
	var b strings.Builder
	for _, t := range s.B {
		if !t.IsConst() {
			return b.String(), false
		}
		b.WriteByte(byte(t.C))
	}
	return b.String(), true
}

func (m *Machine) sliceOp(fr *frame, ins *ssa.Slice) Value {
	x := m.get(fr, ins.X)
	lo, hi, max := -1, -1, -1
	limit := 0
	switch xv := x.(type) {
	case Str:
		limit = len(xv.B)
	case Slice:
		limit = len(xv.A)
	case *Value:
		if xv != nil {
			if a, ok := (*xv).(Array); ok {
				limit = len(a)
			}
		}
	}
	bound := func(v ssa.Value, what string) int {
		t := m.get(fr, v).(*smt.Term)
		if t.IsConst() {
			return m.concreteInt(t, what)
		}
		// symbolic bound: case split over the admissible values; anything else is out of range
		for k := 0; k <= limit; k++ {
			if m.Branch(m.St.Eq(t, m.St.BV(int(t.S), uint64(k)))) {
				return k
			}
		}
		m.goPanicf("slice bounds out of range (symbolic %s) with capacity %d at %s", what, limit, m.at(ins.Pos()))
		return 0
	}
	if ins.Low != nil {
		lo = bound(ins.Low, "slice low")
	}
	if ins.High != nil {
		hi = bound(ins.High, "slice high")
	}
	if ins.Max != nil {
		max = bound(ins.Max, "slice max")
	}
	if lo < 0 {
		lo = 0
	}
	switch x := x.(type) {
	case Str:
		if hi < 0 {
			hi = len(x.B)
		}
		if lo > hi || hi > len(x.B) {
			m.goPanicf("slice bounds out of range [%d:%d] with length %d at %s", lo, hi, len(x.B), m.at(ins.Pos()))
		}
		return Str{B: x.B[lo:hi:hi]}
	case Slice:
		if hi < 0 {
			hi = x.Len
		}
		if max < 0 {
			max = len(x.A)
		}
		if lo > hi || hi > max || max > len(x.A) {
			m.goPanicf("slice bounds out of range [%d:%d:%d] with capacity %d at %s", lo, hi, max, len(x.A), m.at(ins.Pos()))
		}
		if x.Nil && lo == 0 && hi == 0 {
			return Slice{Nil: true}
		}
		return Slice{A: x.A[lo:max:max], Len: hi - lo}
	case *Value:
		if x == nil {
			m.goPanicf("nil pointer dereference (slice of array)")
		}
		a := (*x).(Array)
		if hi < 0 {
			hi = len(a)
		}
		if max < 0 {
			max = len(a)
		}
		if lo > hi || hi > max || max > len(a) {
			m.goPanicf("slice bounds out of range")
		}
		return Slice{A: []Value(a)[lo:max:max], Len: hi - lo}
	}
	unsupportedf("slice of %T", x)
	return nil
}

func (m *Machine) typeAssert(ins *ssa.TypeAssert, x Value) Value {
	xi, ok := x.(Iface)
	if !ok {
		unsupportedf("type assert on non-interface %T", x)
	}
	T := ins.AssertedType
	okk := false
	var res Value
	if types.IsInterface(T) {
		if xi.T != nil && m.implements(xi.T, T) {
			okk = true
			res = xi
		}
	} else {
		if xi.T != nil && types.Identical(xi.T, T) {
			okk = true
			res = copyVal(xi.V)
		}
	}
	if ins.CommaOk {
		if !okk {
			res = m.Zero(T)
		}
		return Tuple{res, m.St.Bool(okk)}
	}
	if !okk {
		dyn := "nil"
		if xi.T != nil {
			dyn = xi.T.String()
		}
		m.goPanicf("interface conversion: interface is %s, not %s at %s", dyn, T, m.at(ins.Pos()))
	}
	return res
}

func (m *Machine) implements(dyn types.Type, iface types.Type) bool {
	it, ok := iface.Underlying().(*types.Interface)
	if !ok {
		return false
	}
	if it.NumMethods() == 0 {
		return true
	}
	if _, isR := dyn.(rtypeMarker); isR {
		return true
	}
	return types.Implements(dyn, it)
}

// prepareCall evaluates callee and arguments.
func (m *Machine) prepareCall(fr *frame, call *ssa.CallCommon) (Value, []Value) {
	var args []Value
	var fnv Value
	if call.Method != nil {
		// interface method invocation
		recv := m.get(fr, call.Value)
		ri, ok := recv.(Iface)
		if !ok {
			unsupportedf("invoke on %T", recv)
		}
		if ri.T == nil {
			m.goPanicf("nil pointer dereference: method %s on nil interface at %s", call.Method.Name(), m.at(call.Pos()))
		}
		if rt, isR := ri.V.(RType); isR {
			name := call.Method.Name()
			fnv = &Closure{Nat: func(mm *Machine, a []Value) Value { return mm.rtypeMethod(rt, name, a[1:]) }, Name: "reflect.Type." + name}
			args = append(args, ri.V)
		} else {
			sel := m.P.Prog.MethodSets.MethodSet(ri.T).Lookup(call.Method.Pkg(), call.Method.Name())
			if sel == nil {
				unsupportedf("method %s not found on %s", call.Method.Name(), ri.T)
			}
			f := m.P.Prog.MethodValue(sel)
			if f == nil {
				unsupportedf("abstract method %s on %s", call.Method.Name(), ri.T)
			}
			fnv = &Closure{Fn: f}
			args = append(args, copyVal(ri.V))
		}
	} else {
		fnv = m.get(fr, call.Value)
	}
	for _, a := range call.Args {
		args = append(args, m.get(fr, a))
	}
	return fnv, args
}

func (m *Machine) invoke(fnv Value, args []Value, call *ssa.CallCommon) Value {
	c, ok := fnv.(*Closure)
	if !ok {
		unsupportedf("call of %T", fnv)
	}
	if c != nil && strings.HasPrefix(c.Name, "builtin:") {
		return m.callBuiltin(strings.TrimPrefix(c.Name, "builtin:"), args, call)
	}
	return m.callClosure(c, args, call)
}

func (m *Machine) callBuiltin(name string, args []Value, call *ssa.CallCommon) Value {
	switch name {
	case "len":
		switch x := args[0].(type) {
		case Str:
			return m.St.BV(64, uint64(len(x.B)))
		case Slice:
			return m.St.BV(64, uint64(x.Len))
		case Array:
			return m.St.BV(64, uint64(len(x)))
		case *Map:
			if x == nil {
				return m.St.BV(64, 0)
			}
			return m.St.BV(64, uint64(len(x.Keys)))
		case *Value: // pointer to array
			if x == nil {
				return m.St.BV(64, uint64(call.Args[0].Type().Underlying().(*types.Pointer).Elem().Underlying().(*types.Array).Len()))
			}
			return m.St.BV(64, uint64(len((*x).(Array))))
		case *Chan:
			return m.St.BV(64, 0)
		}
	case "cap":
		switch x := args[0].(type) {
		case Slice:
			return m.St.BV(64, uint64(len(x.A)))
		case Array:
			return m.St.BV(64, uint64(len(x)))
		}
	case "append":
		s := args[0].(Slice)
		var add []Value
		switch y := args[1].(type) {
		case Slice:
			add = y.A[:y.Len]
		case Str:
			for _, b := range y.B {
				add = append(add, b)
			}
		}
		if len(add) == 0 {
			return s
		}
		n := s.Len + len(add)
		if n <= len(s.A) {
			for i, v := range add {
				s.A[s.Len+i] = copyVal(v)
			}
			return Slice{A: s.A, Len: n}
		}
		nc := 2 * len(s.A)
		if nc < n {
			nc = n
		}
		et := call.Args[0].Type().Underlying().(*types.Slice).Elem()
		a := make([]Value, nc)
		copy(a, s.A[:s.Len])
		for i, v := range add {
			a[s.Len+i] = copyVal(v)
		}
		for i := n; i < nc; i++ {
			a[i] = m.Zero(et)
		}
		return Slice{A: a, Len: n}
	case "copy":
		dst := args[0].(Slice)
		var src []Value
		switch y := args[1].(type) {
		case Slice:
			src = y.A[:y.Len]
		case Str:
			for _, b := range y.B {
				src = append(src, b)
			}
		}
		n := dst.Len
		if len(src) < n {
			n = len(src)
		}
		tmp := make([]Value, n)
		for i := 0; i < n; i++ {
			tmp[i] = copyVal(src[i])
		}
		copy(dst.A[:n], tmp)
		return m.St.BV(64, uint64(n))
	case "delete":
		mp := args[0].(*Map)
		if mp != nil {
			m.mapDelete(mp, args[1])
		}
		return nil
	case "panic":
		m.goPanicf("panic(%s)", m.describe(args[0]))
	case "recover":
		return Iface{}
	case "print", "println":
		return nil
	case "min", "max":
		t := call.Args[0].Type()
		r := args[0].(*smt.Term)
		for _, a := range args[1:] {
			at := a.(*smt.Term)
			var lt *smt.Term
			switch {
			case isFloat(t):
				lt = m.St.FLt(at, r)
			case isSigned(t):
				lt = m.St.SLt(at, r)
			default:
				lt = m.St.ULt(at, r)
			}
			if name == "max" {
				lt = m.St.Not(m.St.Or(lt, m.St.Eq(at, r)))
			}
			r = m.St.Ite(lt, at, r)
		}
		return r
	case "close":
		ch, _ := args[0].(*Chan)
		if ch == nil {
			m.goPanicf("close of nil channel")
		}
		if ch.Closed {
			m.goPanicf("close of closed channel")
		}
		ch.Closed = true
		return nil
	case "ssa:wrapnilchk":
		p := args[0].(*Value)
		if p == nil {
			m.goPanicf("value method called using nil pointer")
		}
		return args[0]
	}
	unsupportedf("builtin %s on %T", name, args[0])
	return nil
}

func sortStrings(s []string) {
	for i := 1; i < len(s); i++ {
		for j := i; j > 0 && s[j] < s[j-1]; j-- {
			s[j], s[j-1] = s[j-1], s[j]
		}
	}
}
