package sym

import (
	"go/types"
	"math"
	"reflect"

	"golang.org/x/tools/go/ssa"

	"symgo/smt"
)

func float64frombits(b uint64) float64 { return math.Float64frombits(b) }
func float32frombits(b uint32) float32 { return math.Float32frombits(b) }

func kindOf(t types.Type) reflect.Kind {
	switch u := t.Underlying().(type) {
	case *types.Basic:
		switch u.Kind() {
		case types.Bool:
			return reflect.Bool
		case types.Int:
			return reflect.Int
		case types.Int8:
			return reflect.Int8
		case types.Int16:
			return reflect.Int16
		case types.Int32:
			return reflect.Int32
		case types.Int64:
			return reflect.Int64
		case types.Uint:
			return reflect.Uint
		case types.Uint8:
			return reflect.Uint8
		case types.Uint16:
			return reflect.Uint16
		case types.Uint32:
			return reflect.Uint32
		case types.Uint64:
			return reflect.Uint64
		case types.Uintptr:
			return reflect.Uintptr
		case types.Float32:
			return reflect.Float32
		case types.Float64:
			return reflect.Float64
		case types.Complex64:
			return reflect.Complex64
		case types.Complex128:
			return reflect.Complex128
		case types.String:
			return reflect.String
		case types.UnsafePointer:
			return reflect.UnsafePointer
		}
	case *types.Array:
		return reflect.Array
	case *types.Chan:
		return reflect.Chan
	case *types.Signature:
		return reflect.Func
	case *types.Interface:
		return reflect.Interface
	case *types.Map:
		return reflect.Map
	case *types.Pointer:
		return reflect.Ptr
	case *types.Slice:
		return reflect.Slice
	case *types.Struct:
		return reflect.Struct
	}
	return reflect.Invalid
}

func (m *Machine) mkRType(t types.Type) Value {
	if t == nil {
		return Iface{}
	}
	return Iface{T: rtypeMarker{}, V: RType{T: t}}
}

func (m *Machine) kindVal(k reflect.Kind) Value { return m.St.BV(64, uint64(k)) }

func (m *Machine) rvalIsNil(r RVal) bool {
	switch v := r.V.(type) {
	case *Value:
		return v == nil
	case *Map:
		return v == nil
	case Slice:
		return v.Nil
	case Iface:
		return v.T == nil
	case *Closure:
		return v == nil
	case *Chan:
		return v == nil
	}
	m.goPanicf("reflect: call of reflect.Value.IsNil on %s Value", kindOf(r.T))
	return false
}

func (m *Machine) structFieldVal(st *types.Struct, i int) Value {
	f := st.Field(i)
	pkgPath := ""
	if !f.Exported() && f.Pkg() != nil {
		pkgPath = f.Pkg().Path()
	}
	return Struct{
		m.MkStr(f.Name()),
		m.MkStr(pkgPath),
		m.mkRType(f.Type()),
		m.MkStr(st.Tag(i)),
		m.St.BV(64, 0),
		Slice{A: []Value{m.St.BV(64, uint64(i))}, Len: 1},
		m.St.Bool(f.Embedded()),
	}
}

func (m *Machine) rtypeMethod(rt RType, name string, args []Value) Value {
	t := rt.T
	switch name {
	case "Kind":
		return m.kindVal(kindOf(t))
	case "Elem":
		switch u := t.Underlying().(type) {
		case *types.Pointer:
			return m.mkRType(u.Elem())
		case *types.Slice:
			return m.mkRType(u.Elem())
		case *types.Array:
			return m.mkRType(u.Elem())
		case *types.Map:
			return m.mkRType(u.Elem())
		case *types.Chan:
			return m.mkRType(u.Elem())
		}
		m.goPanicf("reflect: Elem of invalid type %s", t)
	case "Key":
		if u, ok := t.Underlying().(*types.Map); ok {
			return m.mkRType(u.Key())
		}
		m.goPanicf("reflect: Key of non-map type %s", t)
	case "Name":
		switch n := types.Unalias(t).(type) {
		case *types.Named:
			return m.MkStr(n.Obj().Name())
		case *types.Basic:
			return m.MkStr(n.Name())
		}
		return m.MkStr("")
	case "String":
		return m.MkStr(types.TypeString(t, func(p *types.Package) string { return p.Name() }))
	case "PkgPath":
		if n, ok := types.Unalias(t).(*types.Named); ok && n.Obj().Pkg() != nil {
			return m.MkStr(n.Obj().Pkg().Path())
		}
		return m.MkStr("")
	case "NumField":
		if u, ok := t.Underlying().(*types.Struct); ok {
			return m.St.BV(64, uint64(u.NumFields()))
		}
		m.goPanicf("reflect: NumField of non-struct type %s", t)
	case "Field":
		if u, ok := t.Underlying().(*types.Struct); ok {
			i := m.intOf(args[0])
			if i < 0 || i >= u.NumFields() {
				m.goPanicf("reflect: Field index out of bounds")
			}
			return m.structFieldVal(u, i)
		}
		m.goPanicf("reflect: Field of non-struct type %s", t)
	case "Len":
		if u, ok := t.Underlying().(*types.Array); ok {
			return m.St.BV(64, uint64(u.Len()))
		}
		m.goPanicf("reflect: Len of non-array type %s", t)
	case "Comparable":
		return m.St.Bool(types.Comparable(t))
	case "Implements":
		it := args[0].(Iface).V.(RType).T
		return m.St.Bool(m.implements(t, it))
	}
	unsupportedf("reflect.Type.%s", name)
	return nil
}

func addReflectIntrinsics(in map[string]Intrinsic) {
	in["reflect.ValueOf"] = func(m *Machine, a []Value, _ *ssa.CallCommon) Value {
		i := a[0].(Iface)
		if i.T == nil {
			return RVal{}
		}
		return RVal{T: i.T, V: i.V}
	}
	in["reflect.TypeOf"] = func(m *Machine, a []Value, _ *ssa.CallCommon) Value {
		return m.mkRType(a[0].(Iface).T)
	}
	rv := func(a []Value) RVal { return a[0].(RVal) }
	in["(reflect.Value).IsValid"] = func(m *Machine, a []Value, _ *ssa.CallCommon) Value { return m.St.Bool(rv(a).T != nil) }
	in["(reflect.Value).Kind"] = func(m *Machine, a []Value, _ *ssa.CallCommon) Value {
		if rv(a).T == nil {
			return m.kindVal(reflect.Invalid)
		}
		return m.kindVal(kindOf(rv(a).T))
	}
	in["(reflect.Value).Type"] = func(m *Machine, a []Value, _ *ssa.CallCommon) Value {
		if rv(a).T == nil {
			m.goPanicf("reflect: call of reflect.Value.Type on zero Value")
		}
		return m.mkRType(rv(a).T)
	}
	in["(reflect.Value).IsNil"] = func(m *Machine, a []Value, _ *ssa.CallCommon) Value {
		r := rv(a)
		if r.T == nil {
			m.goPanicf("reflect: call of reflect.Value.IsNil on zero Value")
		}
		return m.St.Bool(m.rvalIsNil(r))
	}
	in["(reflect.Value).Elem"] = func(m *Machine, a []Value, _ *ssa.CallCommon) Value {
		r := rv(a)
		if r.T == nil {
			m.goPanicf("reflect: call of reflect.Value.Elem on zero Value")
		}
		switch u := r.T.Underlying().(type) {
		case *types.Pointer:
			p := r.V.(*Value)
			if p == nil {
				return RVal{}
			}
			return RVal{T: u.Elem(), V: *p, Addr: p}
		case *types.Interface:
			i := r.V.(Iface)
			if i.T == nil {
				return RVal{}
			}
			return RVal{T: i.T, V: i.V}
		}
		m.goPanicf("reflect: call of reflect.Value.Elem on %s Value", kindOf(r.T))
		return nil
	}
	in["(reflect.Value).Interface"] = func(m *Machine, a []Value, _ *ssa.CallCommon) Value {
		r := rv(a)
		if r.T == nil {
			m.goPanicf("reflect: call of reflect.Value.Interface on zero Value")
		}
		if types.IsInterface(r.T) {
			return r.V
		}
		return Iface{T: r.T, V: copyVal(r.V)}
	}
	in["(reflect.Value).CanInterface"] = func(m *Machine, a []Value, _ *ssa.CallCommon) Value { return m.St.True }
	in["(reflect.Value).Int"] = func(m *Machine, a []Value, _ *ssa.CallCommon) Value {
		r := rv(a)
		switch kindOf(r.T) {
		case reflect.Int, reflect.Int8, reflect.Int16, reflect.Int32, reflect.Int64:
			return m.St.SExt(r.V.(*smt.Term), 64)
		}
		m.goPanicf("reflect: call of reflect.Value.Int on %s Value", kindOf(r.T))
		return nil
	}
	in["(reflect.Value).Uint"] = func(m *Machine, a []Value, _ *ssa.CallCommon) Value {
		r := rv(a)
		switch kindOf(r.T) {
		case reflect.Uint, reflect.Uint8, reflect.Uint16, reflect.Uint32, reflect.Uint64, reflect.Uintptr:
			return m.St.ZExt(r.V.(*smt.Term), 64)
		}
		m.goPanicf("reflect: call of reflect.Value.Uint on %s Value", kindOf(r.T))
		return nil
	}
	in["(reflect.Value).Float"] = func(m *Machine, a []Value, _ *ssa.CallCommon) Value {
		r := rv(a)
		switch kindOf(r.T) {
		case reflect.Float64:
			return r.V
		case reflect.Float32:
			return m.St.FConv(smt.FConvF32ToF64, r.V.(*smt.Term))
		}
		m.goPanicf("reflect: call of reflect.Value.Float on %s Value", kindOf(r.T))
		return nil
	}
	in["(reflect.Value).Bool"] = func(m *Machine, a []Value, _ *ssa.CallCommon) Value {
		r := rv(a)
		if kindOf(r.T) != reflect.Bool {
			m.goPanicf("reflect: call of reflect.Value.Bool on %s Value", kindOf(r.T))
		}
		return r.V
	}
	in["(reflect.Value).String"] = func(m *Machine, a []Value, _ *ssa.CallCommon) Value {
		r := rv(a)
		if r.T == nil {
			return m.MkStr("<invalid Value>")
		}
		if kindOf(r.T) != reflect.String {
			return m.MkStr("<" + r.T.String() + " Value>")
		}
		return r.V
	}
	in["(reflect.Value).Len"] = func(m *Machine, a []Value, _ *ssa.CallCommon) Value {
		r := rv(a)
		switch v := r.V.(type) {
		case Slice:
			return m.St.BV(64, uint64(v.Len))
		case Array:
			return m.St.BV(64, uint64(len(v)))
		case Str:
			return m.St.BV(64, uint64(len(v.B)))
		case *Map:
			if v == nil {
				return m.St.BV(64, 0)
			}
			return m.St.BV(64, uint64(len(v.Keys)))
		}
		m.goPanicf("reflect: call of reflect.Value.Len on %s Value", kindOf(r.T))
		return nil
	}
	in["(reflect.Value).Index"] = func(m *Machine, a []Value, _ *ssa.CallCommon) Value {
		r := rv(a)
		i := m.intOf(a[1])
		switch v := r.V.(type) {
		case Slice:
			if i < 0 || i >= v.Len {
				m.goPanicf("reflect: slice index out of range")
			}
			return RVal{T: r.T.Underlying().(*types.Slice).Elem(), V: v.A[i], Addr: &v.A[i]}
		case Array:
			if i < 0 || i >= len(v) {
				m.goPanicf("reflect: array index out of range")
			}
			return RVal{T: r.T.Underlying().(*types.Array).Elem(), V: v[i]}
		case Str:
			if i < 0 || i >= len(v.B) {
				m.goPanicf("reflect: string index out of range")
			}
			return RVal{T: types.Typ[types.Uint8], V: v.B[i]}
		}
		m.goPanicf("reflect: call of reflect.Value.Index on %s Value", kindOf(r.T))
		return nil
	}
	in["(reflect.Value).MapKeys"] = func(m *Machine, a []Value, _ *ssa.CallCommon) Value {
		r := rv(a)
		mt, ok := r.T.Underlying().(*types.Map)
		if !ok {
			m.goPanicf("reflect: call of reflect.Value.MapKeys on %s Value", kindOf(r.T))
		}
		mp := r.V.(*Map)
		var out []Value
		if mp != nil {
			for _, k := range mp.Keys {
				out = append(out, RVal{T: mt.Key(), V: k})
			}
		}
		return Slice{A: out, Len: len(out)}
	}
	in["(reflect.Value).MapIndex"] = func(m *Machine, a []Value, _ *ssa.CallCommon) Value {
		r := rv(a)
		mt, ok := r.T.Underlying().(*types.Map)
		if !ok {
			m.goPanicf("reflect: call of reflect.Value.MapIndex on %s Value", kindOf(r.T))
		}
		mp := r.V.(*Map)
		k := a[1].(RVal)
		if mp == nil {
			return RVal{}
		}
		v, ok := mp.Get(m.keyString(k.V))
		if !ok {
			return RVal{}
		}
		return RVal{T: mt.Elem(), V: v}
	}
	in["(reflect.Value).NumField"] = func(m *Machine, a []Value, _ *ssa.CallCommon) Value {
		r := rv(a)
		st, ok := r.T.Underlying().(*types.Struct)
		if !ok {
			m.goPanicf("reflect: call of reflect.Value.NumField on %s Value", kindOf(r.T))
		}
		return m.St.BV(64, uint64(st.NumFields()))
	}
	in["(reflect.Value).Field"] = func(m *Machine, a []Value, _ *ssa.CallCommon) Value {
		r := rv(a)
		st, ok := r.T.Underlying().(*types.Struct)
		if !ok {
			m.goPanicf("reflect: call of reflect.Value.Field on %s Value", kindOf(r.T))
		}
		i := m.intOf(a[1])
		if i < 0 || i >= st.NumFields() {
			m.goPanicf("reflect: Field index out of range")
		}
		sv, ok := r.V.(Struct)
		if !ok {
			unsupportedf("reflect Field on opaque struct %s", r.T)
		}
		return RVal{T: st.Field(i).Type(), V: sv[i]}
	}
	in["(reflect.StructTag).Get"] = func(m *Machine, a []Value, _ *ssa.CallCommon) Value {
		return m.MkStr(reflect.StructTag(m.concStr(a[0], "struct tag")).Get(m.concStr(a[1], "tag key")))
	}
	in["(reflect.StructTag).Lookup"] = func(m *Machine, a []Value, _ *ssa.CallCommon) Value {
		v, ok := reflect.StructTag(m.concStr(a[0], "struct tag")).Lookup(m.concStr(a[1], "tag key"))
		return Tuple{m.MkStr(v), m.St.Bool(ok)}
	}
	in["(reflect.Kind).String"] = func(m *Machine, a []Value, _ *ssa.CallCommon) Value {
		return m.MkStr(reflect.Kind(m.intOf(a[0])).String())
	}
}
