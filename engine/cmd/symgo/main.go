// symgo: symbolic execution of go/ssa against an SMT solver.
//
//	symgo check <Cxx> <quick|thorough>     run the property's harnesses, write evidence, replay counterexamples
//	symgo run -h <regexp> [-tier t]        run harnesses by name (development)
//	symgo replay <file.json>               replay a counterexample natively
package main

import (
	"bytes"
	"encoding/json"
	"flag"
	"fmt"
	"go/ast"
	"os"
	"os/exec"
	"path/filepath"
	"regexp"
	"sort"
	"strconv"
	"strings"
	"sync"
	"time"

	"golang.org/x/tools/go/packages"
	"golang.org/x/tools/go/ssa"

	"symgo/sym"
)

const modPath = "github.com/ostafen/clover/v2"

var (
	verifDir = envOr("VERIF_DIR", "/verif")
	repoDir  = envOr("VERIF_REPO", "/repo")
	outDir   = envOr("VERIF_OUT", envOr("VERIF_DIR", "/verif")) // evidence/, replays/, work/ (redirected for trial runs against scratch trees)
)

func envOr(k, d string) string {
	if v := os.Getenv(k); v != "" {
		return v
	}
	return d
}

type HarnessMeta struct {
	Name    string
	Pkg     string // package path
	Dir     string // repo-relative dir
	Props   []string
	Tier    string // quick | thorough (thorough harnesses run only in thorough; quick ones in both)
	Bounds  string
	Split   int // shard over the first nd.Choice
	Expect  string // "violation" for vacuity twins
	File    string
	MaxPaths int
}

func goEnv() []string {
	env := os.Environ()
	env = append(env, "GOFLAGS=-mod=mod", "GOPROXY=off", "GOSUMDB=off", "GOTOOLCHAIN=local", "CGO_ENABLED=0")
	return env
}

// buildOverlay maps harness sources into the repo tree. mode is "sym" or "native".
func buildOverlay(mode string, exclude map[string]bool) (map[string][]byte, map[string]string, error) {
	ov := map[string][]byte{}
	src := map[string]string{} // virtual -> real
	root := filepath.Join(verifDir, "harness")
	err := filepath.Walk(root, func(p string, info os.FileInfo, err error) error {
		if err != nil || info.IsDir() {
			return err
		}
		if !strings.HasSuffix(p, ".go") {
			return nil
		}
		base := filepath.Base(p)
		if strings.HasSuffix(base, "_sym.go") && mode != "sym" {
			return nil
		}
		if strings.HasSuffix(base, "_native.go") && mode != "native" {
			return nil
		}
		rel, _ := filepath.Rel(root, p)
		if exclude[rel] {
			return nil
		}
		virt := filepath.Join(repoDir, filepath.Dir(rel), "zz_verif_"+base)
		b, err := os.ReadFile(p)
		if err != nil {
			return err
		}
		ov[virt] = b
		src[virt] = p
		return nil
	})
	return ov, src, err
}

type loaded struct {
	prog    *sym.Program
	metas   []HarnessMeta
	dropped []string
}

var harnessTag = regexp.MustCompile(`^//verif:harness\s+(.*)$`)

func parseMeta(s string) map[string]string {
	out := map[string]string{}
	// key=value or key="quoted value"
	re := regexp.MustCompile(`(\w+)=("([^"]*)"|\S+)`)
	for _, mm := range re.FindAllStringSubmatch(s, -1) {
		v := mm[2]
		if strings.HasPrefix(v, "\"") {
			v = mm[3]
		}
		out[mm[1]] = v
	}
	return out
}

func loadAll() (*loaded, error) {
	exclude := map[string]bool{}
	res := &loaded{}
	for attempt := 0; attempt < 6; attempt++ {
		ov, src, err := buildOverlay("sym", exclude)
		if err != nil {
			return nil, err
		}
		cfg := sym.LoadConfig{Dir: repoDir, Patterns: []string{"./..."}, Overlay: ov, Env: goEnv(),
			InterpPfx: []string{modPath, "github.com/google/orderedcode"}}
		prog, err := sym.Load(cfg)
		if err != nil && prog != nil && len(prog.LoadErrors) > 0 {
			// drop harness files that carry errors, retry
			droppedNow := false
			for _, e := range prog.LoadErrors {
				for virt, real := range src {
					if strings.Contains(e, virt) {
						rel, _ := filepath.Rel(filepath.Join(verifDir, "harness"), real)
						if !exclude[rel] {
							exclude[rel] = true
							res.dropped = append(res.dropped, rel+": "+e)
							droppedNow = true
						}
					}
				}
			}
			if !droppedNow {
				return nil, fmt.Errorf("repository does not load: %v", err)
			}
			continue
		}
		if err != nil {
			return nil, err
		}
		res.prog = prog
		break
	}
	if res.prog == nil {
		return nil, fmt.Errorf("could not load after dropping harness files: %v", res.dropped)
	}
	return res, nil
}

// collectMetas parses //verif:harness directives by re-loading syntax only of harness files.
func collectMetas(exclude map[string]bool) ([]HarnessMeta, error) {
	var metas []HarnessMeta
	root := filepath.Join(verifDir, "harness")
	err := filepath.Walk(root, func(p string, info os.FileInfo, err error) error {
		if err != nil || info.IsDir() || !strings.HasSuffix(p, ".go") || strings.HasSuffix(p, "_native.go") {
			return err
		}
		rel, _ := filepath.Rel(root, p)
		if exclude[rel] {
			return nil
		}
		b, err := os.ReadFile(p)
		if err != nil {
			return err
		}
		lines := strings.Split(string(b), "\n")
		for i, l := range lines {
			mm := harnessTag.FindStringSubmatch(strings.TrimSpace(l))
			if mm == nil {
				continue
			}
			kv := parseMeta(mm[1])
			// next func line
			name := ""
			for j := i + 1; j < len(lines) && j < i+6; j++ {
				if strings.HasPrefix(lines[j], "func ") {
					name = strings.TrimPrefix(lines[j], "func ")
					name = name[:strings.IndexAny(name, "( ")]
					break
				}
			}
			if name == "" {
				return fmt.Errorf("%s:%d: harness directive without function", p, i+1)
			}
			dir := filepath.Dir(rel)
			pkg := modPath
			if dir != "." {
				pkg = modPath + "/" + filepath.ToSlash(dir)
			}
			hm := HarnessMeta{Name: name, Pkg: pkg, Dir: dir, Props: strings.Split(kv["props"], ","), Tier: kv["tier"],
				Bounds: kv["bounds"], Expect: kv["expect"], File: rel}
			if hm.Tier == "" {
				hm.Tier = "quick"
			}
			if s := kv["split"]; s != "" {
				hm.Split, _ = strconv.Atoi(s)
			}
			if s := kv["maxpaths"]; s != "" {
				hm.MaxPaths, _ = strconv.Atoi(s)
			}
			metas = append(metas, hm)
		}
		return nil
	})
	return metas, err
}

type job struct {
	meta   HarnessMeta
	shard  int // task sequence number (for display)
	prefix []int
}

type jobResult struct {
	job        job
	stats      sym.Stats
	violations []sym.Violation
	inconc     []string
	samples    []map[string]string
	solverQ    int
	solverSat  int
	solverUns  int
	solverUnk  int
	solverTime time.Duration
	solverErrs []string
	wall       time.Duration
	cross      []sym.CrossQuery
}

// pool is a work-stealing task pool: a task is a harness plus a forced trail prefix.
type pool struct {
	mu      sync.Mutex
	cond    *sync.Cond
	queue   []job
	active  int
	idle    int
	seq     int
	results []jobResult
}

func runJobs(prog *sym.Program, jobs []job, workers int, solver string, timeoutMs int, verbose bool) []jobResult {
	p := &pool{}
	p.cond = sync.NewCond(&p.mu)
	p.queue = append(p.queue, jobs...)
	p.seq = len(jobs)
	var wg sync.WaitGroup
	for w := 0; w < workers; w++ {
		wg.Add(1)
		go func() {
			defer wg.Done()
			for {
				p.mu.Lock()
				for len(p.queue) == 0 && p.active > 0 {
					p.idle++
					p.cond.Wait()
					p.idle--
				}
				if len(p.queue) == 0 {
					p.mu.Unlock()
					p.cond.Broadcast()
					return
				}
				// take the oldest task (shallowest prefix = biggest subtree)
				j := p.queue[0]
				p.queue = p.queue[1:]
				p.active++
				p.mu.Unlock()
				r := runJob(prog, j, solver, timeoutMs, p)
				p.mu.Lock()
				p.active--
				p.results = append(p.results, r)
				if verbose {
					fmt.Fprintf(os.Stderr, "  %-40s task=%-4d depth=%-3d paths=%-6d asserts=%-6d viol=%d inconc=%v %.1fs (solver %.1fs, %d q)\n",
						j.meta.Name, j.shard, len(j.prefix), r.stats.Paths, r.stats.AssertQueries, len(r.violations), r.inconc, r.wall.Seconds(), r.solverTime.Seconds(), r.solverQ)
				}
				p.mu.Unlock()
				p.cond.Broadcast()
			}
		}()
	}
	stopBeat := make(chan struct{})
	go func() {
		t := time.NewTicker(120 * time.Second)
		defer t.Stop()
		for {
			select {
			case <-stopBeat:
				return
			case <-t.C:
				p.mu.Lock()
				paths := 0
				per := map[string]int{}
				for _, r := range p.results {
					paths += r.stats.Paths
					per[r.job.meta.Name] += r.stats.Paths
				}
				queued := map[string]int{}
				for _, j := range p.queue {
					queued[j.meta.Name]++
				}
				fmt.Fprintf(os.Stderr, "progress: tasks done=%d queued=%d active=%d paths so far=%d queued-by-harness=%v\n", len(p.results), len(p.queue), p.active, paths, queued)
				p.mu.Unlock()
			}
		}
	}()
	wg.Wait()
	close(stopBeat)
	results := p.results
	sort.Slice(results, func(i, k int) bool {
		if results[i].job.meta.Name != results[k].job.meta.Name {
			return results[i].job.meta.Name < results[k].job.meta.Name
		}
		return results[i].job.shard < results[k].job.shard
	})
	return results
}

func (p *pool) wantDonate() bool {
	p.mu.Lock()
	defer p.mu.Unlock()
	return p.idle > 0 && len(p.queue) == 0
}

func (p *pool) give(meta HarnessMeta, prefixes [][]int) bool {
	p.mu.Lock()
	defer p.mu.Unlock()
	if p.idle == 0 {
		return false
	}
	for _, pf := range prefixes {
		p.queue = append(p.queue, job{meta: meta, shard: p.seq, prefix: pf})
		p.seq++
	}
	p.cond.Broadcast()
	return true
}

func runJob(prog *sym.Program, j job, solver string, timeoutMs int, p *pool) (r jobResult) {
	r.job = j
	start := time.Now()
	defer func() { r.wall = time.Since(start) }()
	m, err := sym.NewMachine(prog, solver, timeoutMs)
	if err != nil {
		r.inconc = []string{"solver start: " + err.Error()}
		return
	}
	defer m.Close()
	if j.meta.MaxPaths > 0 {
		m.Lim.MaxPaths = j.meta.MaxPaths
	}
	m.CrossEvery = crossEvery
	pk := prog.Pkgs[j.meta.Pkg]
	if pk == nil {
		r.inconc = []string{"package not loaded: " + j.meta.Pkg}
		return
	}
	fn := pk.Func(j.meta.Name)
	if fn == nil {
		r.inconc = []string{"harness function missing: " + j.meta.Name}
		return
	}
	func() {
		defer func() {
			if e := recover(); e != nil {
				r.inconc = append(r.inconc, fmt.Sprintf("engine crash: %v", e))
				if os.Getenv("SYMGO_DEBUG") != "" {
					panic(e)
				}
			}
		}()
		res := m.Explore(fn, j.prefix, func(pf [][]int) bool { return p.give(j.meta, pf) }, p.wantDonate)
		r.inconc = append(r.inconc, res.Inconclusive...)
	}()
	r.stats = m.Stats
	r.violations = m.Violations
	r.samples = m.Samples
	r.cross = m.CrossQueries
	if m.Solver != nil {
		r.solverQ, r.solverSat, r.solverUns, r.solverUnk = m.Solver.Queries, m.Solver.NSat, m.Solver.NUnsat, m.Solver.NUnknown
		r.solverTime = m.Solver.SolveTime
		r.solverErrs = m.Solver.Errors
		if len(r.solverErrs) > 0 {
			r.inconc = append(r.inconc, "solver error output: "+r.solverErrs[0])
		}
	}
	if m.Stats.UnknownAssert > 0 {
		r.inconc = append(r.inconc, fmt.Sprintf("%d assertion queries undecided (solver unknown/timeout)", m.Stats.UnknownAssert))
	}
	return
}

func ensureFuncExists(fn *ssa.Function) bool { return fn != nil }

var crossEvery = 0

// crossCheck re-decides sampled assertion queries with the two other solvers; a sat/unsat disagreement is fatal.
func crossCheck(qs []sym.CrossQuery, limit int) (checked int, secondaryUnknown int, disagreements []string) {
	if len(qs) > limit {
		step := len(qs) / limit
		var pick []sym.CrossQuery
		for i := 0; i < len(qs) && len(pick) < limit; i += step {
			pick = append(pick, qs[i])
		}
		qs = pick
	}
	work := filepath.Join(outDir, "work", fmt.Sprintf("cross-%d", os.Getpid()))
	os.MkdirAll(work, 0o755)
	defer os.RemoveAll(work)
	type res struct {
		i       int
		solver  string
		verdict string
	}
	ch := make(chan res)
	sem := make(chan struct{}, 8)
	n := 0
	for i, q := range qs {
		f := filepath.Join(work, fmt.Sprintf("q%d.smt2", i))
		os.WriteFile(f, []byte(q.Script), 0o644)
		for _, sv := range [][]string{{"z3-new", "-T:60", f}, {"cvc5", "--tlimit=60000", f}} {
			n++
			go func(i int, sv []string) {
				sem <- struct{}{}
				defer func() { <-sem }()
				out, _ := exec.Command(sv[0], sv[1:]...).CombinedOutput()
				v := "unknown"
				for _, l := range strings.Split(string(out), "\n") {
					l = strings.TrimSpace(l)
					if l == "sat" || l == "unsat" {
						v = l
					}
				}
				ch <- res{i, sv[0], v}
			}(i, sv)
		}
	}
	for k := 0; k < n; k++ {
		r := <-ch
		checked++
		if r.verdict == "unknown" {
			secondaryUnknown++
		} else if r.verdict != qs[r.i].Primary {
			disagreements = append(disagreements, fmt.Sprintf("%s says %s, z3 said %s on an assertion query of %s", r.solver, r.verdict, qs[r.i].Primary, qs[r.i].Label))
		}
	}
	return
}

var _ = packages.NeedName
var _ = ast.NewIdent

// ---------- counterexamples, replay ----------

type Replay struct {
	Property string            `json:"property"`
	Harness  string            `json:"harness"`
	Package  string            `json:"package"`
	Dir      string            `json:"dir"`
	Kind     string            `json:"kind"`
	Label    string            `json:"assert"`
	Msg      string            `json:"msg,omitempty"`
	Choices  map[string]int    `json:"choices"`
	Values   map[string]string `json:"values"`
}

func writeReplay(prop string, hm HarnessMeta, v sym.Violation, n int) (string, error) {
	dir := filepath.Join(outDir, "replays", prop)
	os.MkdirAll(dir, 0o755)
	p := filepath.Join(dir, fmt.Sprintf("%s-%d.json", hm.Name, n))
	rp := Replay{Property: prop, Harness: hm.Name, Package: hm.Pkg, Dir: hm.Dir, Kind: v.Kind, Label: v.Label, Msg: v.Msg, Choices: v.Choices, Values: v.Model}
	b, _ := json.MarshalIndent(rp, "", " ")
	return p, os.WriteFile(p, b, 0o644)
}

type replayOutcome struct {
	Reproduced bool
	Output     string
	Failed     []string // labels that failed natively
	Panicked   bool
	BuildError bool
}

// nativeReplay runs the harness natively (real libraries) under the assignment.
func nativeReplay(path string) (replayOutcome, error) {
	var out replayOutcome
	b, err := os.ReadFile(path)
	if err != nil {
		return out, err
	}
	var rp Replay
	if err := json.Unmarshal(b, &rp); err != nil {
		return out, err
	}
	ov, src, err := buildOverlay("native", nil)
	if err != nil {
		return out, err
	}
	work := filepath.Join(outDir, "work", fmt.Sprintf("replay-%d-%d", os.Getpid(), time.Now().UnixNano()))
	os.MkdirAll(work, 0o755)
	defer os.RemoveAll(work)
	repl := map[string]string{}
	for virt := range ov {
		repl[virt] = src[virt]
	}
	// generated test file
	pkgName := "clover"
	if rp.Dir != "." {
		pkgName = filepath.Base(rp.Dir)
	}
	testSrc := fmt.Sprintf(`package %s

import (
	"testing"
	"%s/zzverif/nd"
)

func TestVerifReplay(t *testing.T) {
	nd.LoadReplay()
	defer nd.Finish(t)
	%s()
}
`, pkgName, modPath, rp.Harness)
	tf := filepath.Join(work, "replay_test.go")
	os.WriteFile(tf, []byte(testSrc), 0o644)
	repl[filepath.Join(repoDir, rp.Dir, "zz_verif_replay_test.go")] = tf
	ovj, _ := json.Marshal(map[string]interface{}{"Replace": repl})
	ovf := filepath.Join(work, "overlay.json")
	os.WriteFile(ovf, ovj, 0o644)
	abs, _ := filepath.Abs(path)
	cmd := exec.Command("go", "test", "-v", "-vet=off", "-count=1", "-overlay", ovf, "-run", "^TestVerifReplay$", "-timeout", "120s", "./"+rp.Dir)
	cmd.Dir = repoDir
	cmd.Env = append(goEnv(), "VERIF_REPLAY="+abs, "VERIF_WORK="+work)
	var buf bytes.Buffer
	cmd.Stdout = &buf
	cmd.Stderr = &buf
	cmd.Run()
	out.Output = buf.String()
	for _, l := range strings.Split(out.Output, "\n") {
		l = strings.TrimSpace(l)
		if strings.HasPrefix(l, "VERIF-ASSERT-FAIL ") {
			out.Failed = append(out.Failed, strings.TrimPrefix(l, "VERIF-ASSERT-FAIL "))
		}
		if strings.HasPrefix(l, "panic:") || strings.Contains(l, "VERIF-PANIC") {
			out.Panicked = true
		}
		if strings.Contains(l, "[build failed]") || strings.Contains(l, "[setup failed]") {
			out.BuildError = true
		}
	}
	switch rp.Kind {
	case "panic":
		out.Reproduced = out.Panicked
	default:
		for _, f := range out.Failed {
			if f == rp.Label {
				out.Reproduced = true
			}
		}
	}
	return out, nil
}

type diffCase struct {
	hm    HarnessMeta
	model map[string]string
}

// runDifferential replays sampled path models natively, one `go test` per package.
func runDifferential(cases []diffCase) (int, []string) {
	if len(cases) == 0 {
		return 0, nil
	}
	ov, src, err := buildOverlay("native", nil)
	if err != nil {
		return 0, []string{err.Error()}
	}
	work := filepath.Join(outDir, "work", fmt.Sprintf("diff-%d-%d", os.Getpid(), time.Now().UnixNano()))
	os.MkdirAll(work, 0o755)
	defer os.RemoveAll(work)
	byDir := map[string][]diffCase{}
	for _, c := range cases {
		byDir[c.hm.Dir] = append(byDir[c.hm.Dir], c)
	}
	okN := 0
	var bad []string
	for dir, cs := range byDir {
		repl := map[string]string{}
		for virt := range ov {
			repl[virt] = src[virt]
		}
		pkgName := "clover"
		if dir != "." {
			pkgName = filepath.Base(dir)
		}
		var tbl strings.Builder
		for i, c := range cs {
			rp := Replay{Harness: c.hm.Name, Choices: map[string]int{}, Values: map[string]string{}}
			for k, v := range c.model {
				if strings.HasPrefix(k, "choice:") {
					n, _ := strconv.Atoi(v)
					rp.Choices[strings.TrimPrefix(k, "choice:")] = n
				} else {
					rp.Values[k] = v
				}
			}
			b, _ := json.Marshal(rp)
			f := filepath.Join(work, fmt.Sprintf("%s-%d.json", pkgName, i))
			os.WriteFile(f, b, 0o644)
			fmt.Fprintf(&tbl, "\t\t{%q, %q, %s},\n", c.hm.Name, f, c.hm.Name)
		}
		testSrc := fmt.Sprintf(`package %s

import (
	"fmt"
	"testing"
	"%s/zzverif/nd"
)

func TestVerifDifferential(t *testing.T) {
	cases := []struct {
		name, file string
		fn         func()
	}{
%s	}
	for _, c := range cases {
		failed, panicked, assumed := nd.RunCase(c.file, c.fn)
		fmt.Printf("VERIF-DIFF %%s failed=%%v panic=%%q assume=%%v\n", c.name, failed, panicked, assumed)
	}
}
`, pkgName, modPath, tbl.String())
		tf := filepath.Join(work, pkgName+"_diff_test.go")
		os.WriteFile(tf, []byte(testSrc), 0o644)
		repl[filepath.Join(repoDir, dir, "zz_verif_diff_test.go")] = tf
		ovj, _ := json.Marshal(map[string]interface{}{"Replace": repl})
		ovf := filepath.Join(work, pkgName+"-overlay.json")
		os.WriteFile(ovf, ovj, 0o644)
		cmd := exec.Command("go", "test", "-v", "-vet=off", "-count=1", "-overlay", ovf, "-run", "^TestVerifDifferential$", "-timeout", "300s", "./"+dir)
		cmd.Dir = repoDir
		cmd.Env = append(goEnv(), "VERIF_WORK="+work)
		var buf bytes.Buffer
		cmd.Stdout = &buf
		cmd.Stderr = &buf
		cmd.Run()
		seen := 0
		for _, l := range strings.Split(buf.String(), "\n") {
			l = strings.TrimSpace(l)
			if !strings.HasPrefix(l, "VERIF-DIFF ") {
				continue
			}
			seen++
			if strings.Contains(l, "failed=[]") && strings.Contains(l, `panic=""`) {
				okN++
			} else {
				bad = append(bad, l)
			}
		}
		if seen != len(cs) {
			out := buf.String()
			if len(out) > 600 {
				out = out[len(out)-600:]
			}
			bad = append(bad, fmt.Sprintf("differential run in %s produced %d of %d results: %s", dir, seen, len(cs), out))
		}
	}
	return okN, bad
}

// ---------- known findings ----------

type Finding struct {
	Status    string            `json:"status"` // open | fixed
	Property  string            `json:"property"`
	Harness   string            `json:"harness,omitempty"`
	Assert    string            `json:"assert,omitempty"`
	Signature map[string]int    `json:"signature,omitempty"`
	What      string            `json:"what"`
	Commit    string            `json:"commit,omitempty"`
}

func loadFindings() []Finding {
	b, err := os.ReadFile(filepath.Join(verifDir, "known_findings.json"))
	if err != nil {
		return nil
	}
	var f struct {
		Findings []Finding `json:"findings"`
	}
	json.Unmarshal(b, &f)
	return f.Findings
}

func matchFinding(fs []Finding, prop string, hm HarnessMeta, v sym.Violation) *Finding {
	for i := range fs {
		f := &fs[i]
		if f.Status != "open" || f.Property != prop || f.Harness != hm.Name || f.Assert != v.Label {
			continue
		}
		ok := true
		for k, want := range f.Signature {
			if got, has := v.Choices[k]; !has || got != want {
				ok = false
			}
		}
		if ok {
			return f
		}
	}
	return nil
}

// diversify picks up to n members of a counterexample group that differ as much as possible in their
// case-split choices (the first member, then greedily the one farthest from those already picked).
func diversify(vs []sym.Violation, n int) []sym.Violation {
	if len(vs) <= n {
		return vs
	}
	dist := func(a, b sym.Violation) int {
		d := 0
		for k, v := range a.Choices {
			if w, ok := b.Choices[k]; !ok || w != v {
				d++
			}
		}
		for k := range b.Choices {
			if _, ok := a.Choices[k]; !ok {
				d++
			}
		}
		return d
	}
	picked := []sym.Violation{vs[0]}
	used := map[int]bool{0: true}
	for len(picked) < n {
		best, bestD := -1, -1
		for i, v := range vs {
			if used[i] {
				continue
			}
			m := 1 << 30
			for _, p := range picked {
				if d := dist(v, p); d < m {
					m = d
				}
			}
			if m > bestD {
				best, bestD = i, m
			}
		}
		if best < 0 {
			break
		}
		used[best] = true
		picked = append(picked, vs[best])
	}
	return picked
}

// ---------- evidence ----------

func main() {
	if len(os.Args) < 2 {
		fmt.Fprintln(os.Stderr, "usage: symgo check <Cxx> <quick|thorough> | run ... | replay <file>")
		os.Exit(2)
	}
	switch os.Args[1] {
	case "check":
		if len(os.Args) < 4 {
			fmt.Fprintln(os.Stderr, "usage: symgo check <Cxx> <quick|thorough>")
			os.Exit(2)
		}
		os.Exit(cmdCheck(os.Args[2], os.Args[3], nil))
	case "run":
		fs := flag.NewFlagSet("run", flag.ExitOnError)
		pat := fs.String("h", ".", "harness name regexp")
		tier := fs.String("tier", "thorough", "tier")
		prop := fs.String("prop", "DEV", "property id for evidence/replays")
		fs.Parse(os.Args[2:])
		re := regexp.MustCompile(*pat)
		os.Exit(cmdCheck(*prop, *tier, re))
	case "replay":
		out, err := nativeReplay(os.Args[2])
		if err != nil {
			fmt.Fprintln(os.Stderr, err)
			os.Exit(2)
		}
		fmt.Print(out.Output)
		if out.Reproduced {
			fmt.Println("REPRODUCED")
			os.Exit(1)
		}
		fmt.Println("NOT-REPRODUCED")
		os.Exit(0)
	case "selftest":
		os.Exit(cmdSelftest())
	default:
		fmt.Fprintln(os.Stderr, "unknown command", os.Args[1])
		os.Exit(2)
	}
}

func cmdSelftest() int {
	ld, err := loadAll()
	if err != nil {
		fmt.Fprintln(os.Stderr, "selftest: load failed:", err)
		return 2
	}
	if len(ld.dropped) > 0 {
		fmt.Fprintln(os.Stderr, "selftest: harness files dropped:", ld.dropped)
		return 2
	}
	fmt.Println("selftest: loaded", len(ld.prog.Pkgs), "packages")
	return 0
}

func cmdCheck(prop, tier string, only *regexp.Regexp) int {
	start := time.Now()
	seed := 0
	if s := os.Getenv("VERIF_SEED"); s != "" {
		seed, _ = strconv.Atoi(s)
	}
	if t := os.Getenv("VERIF_TIER"); t != "" && only == nil {
		tier = t
	}
	verbose := os.Getenv("VERIF_VERBOSE") != "" || only != nil
	ld, err := loadAll()
	if err != nil {
		fmt.Fprintf(os.Stderr, "INCONCLUSIVE property=%s: %v\n", prop, err)
		return 2
	}
	exclude := map[string]bool{}
	for _, d := range ld.dropped {
		exclude[strings.SplitN(d, ": ", 2)[0]] = true
	}
	metas, err := collectMetas(nil)
	if err != nil {
		fmt.Fprintln(os.Stderr, err)
		return 2
	}
	var jobs []job
	var selected []HarnessMeta
	var inconclusive []string
	for _, hm := range metas {
		if only != nil {
			if !only.MatchString(hm.Name) {
				continue
			}
		} else {
			has := false
			for _, p := range hm.Props {
				if p == prop {
					has = true
				}
			}
			if !has {
				continue
			}
			if hm.Tier == "thorough" && tier != "thorough" {
				continue
			}
			if hm.Tier == "quickonly" && tier != "quick" {
				continue
			}
		}
		if exclude[hm.File] {
			inconclusive = append(inconclusive, "harness "+hm.Name+" no longer type-checks against the repository (file "+hm.File+" dropped)")
			continue
		}
		selected = append(selected, hm)
		jobs = append(jobs, job{meta: hm, shard: len(jobs)})
	}
	if len(selected) == 0 {
		fmt.Fprintf(os.Stderr, "INCONCLUSIVE property=%s: no harness selected\n", prop)
		if len(inconclusive) > 0 {
			fmt.Fprintln(os.Stderr, strings.Join(inconclusive, "\n"))
		}
		return 2
	}
	workers := 16
	if w := os.Getenv("VERIF_WORKERS"); w != "" {
		workers, _ = strconv.Atoi(w)
	}
	timeoutMs := 20000
	if tier == "thorough" {
		timeoutMs = 120000
	}
	if t := os.Getenv("VERIF_SOLVER_TIMEOUT_MS"); t != "" {
		timeoutMs, _ = strconv.Atoi(t)
	}
	solver := envOr("VERIF_SOLVER", "z3")
	if tier == "thorough" && os.Getenv("VERIF_NO_CROSS") == "" {
		crossEvery = 150
	}
	results := runJobs(ld.prog, jobs, workers, solver, timeoutMs, verbose)

	findings := loadFindings()
	exit := 0
	nViol := 0
	var knownLines, violLines, notes []string
	agg := struct {
		paths, aborted, choice, asserts, trivial, nontriv, feas, unkF, unkA int
		steps                                                          int64
		solverQ, sat, unsat, unk                                       int
		solverTime, wall                                               time.Duration
	}{}
	funcs := map[string]int{}
	reached := map[string]int{}
	labels := map[string]int{}
	var samples []interface{}
	var harnessRows []map[string]interface{}
	rowByHarness := map[string]map[string]interface{}{}
	replayed := 0
	byHarness := map[string]*HarnessMeta{}
	for i := range selected {
		byHarness[selected[i].Name] = &selected[i]
	}
	expectSeen := map[string]bool{}
	reachedBy := map[string]map[string]int{}
	cexN := 0
	sampleCount := map[string]int{}
	var diffCases []diffCase
	type groupState struct {
		total, attempts int
		confirmed       bool
		failedReplays   []string
		members         []sym.Violation
		hm              HarnessMeta
		known           *Finding
	}
	groups := map[string]*groupState{}
	var groupOrder []string
	for _, r := range results {
		hm := r.job.meta
		agg.paths += r.stats.Paths
		agg.aborted += r.stats.PathsAborted
		agg.choice += r.stats.ChoicePoints
		agg.asserts += r.stats.AssertQueries
		agg.trivial += r.stats.AssertTrivial
		agg.nontriv += r.stats.AssertNontriv
		agg.feas += r.stats.FeasQueries
		agg.unkF += r.stats.UnknownFeas
		agg.unkA += r.stats.UnknownAssert
		agg.steps += r.stats.Steps
		agg.solverQ += r.solverQ
		agg.sat += r.solverSat
		agg.unsat += r.solverUns
		agg.unk += r.solverUnk
		agg.solverTime += r.solverTime
		for k, v := range r.stats.FuncsHit {
			funcs[k] += v
		}
		if reachedBy[hm.Name] == nil {
			reachedBy[hm.Name] = map[string]int{}
		}
		for k, v := range r.stats.Reached {
			reached[k] += v
			reachedBy[hm.Name][k] += v
		}
		for k, v := range r.stats.AssertLabels {
			labels[k] += v
		}
		for _, s := range r.samples {
			if len(samples) < 6 {
				samples = append(samples, map[string]interface{}{"harness": hm.Name, "path_model": s})
			}
			if hm.Expect == "" && sampleCount[hm.Name] < 2 && len(diffCases) < 12 {
				sampleCount[hm.Name]++
				diffCases = append(diffCases, diffCase{hm: hm, model: s})
			}
		}
		row := map[string]interface{}{"harness": hm.Name, "shard": r.job.shard, "package": hm.Pkg, "bounds": hm.Bounds, "paths": r.stats.Paths,
			"paths_cut_by_assume": r.stats.PathsAborted, "choice_points": r.stats.ChoicePoints, "assert_queries": r.stats.AssertQueries,
			"assert_needing_solver": r.stats.AssertNontriv, "feasibility_queries": r.stats.FeasQueries, "solver_queries": r.solverQ,
			"solver_s": round2(r.solverTime.Seconds()), "wall_s": round2(r.wall.Seconds()), "violations": len(r.violations), "inconclusive": r.inconc}
		if prev, ok := rowByHarness[hm.Name]; ok {
			for _, k := range []string{"paths", "paths_cut_by_assume", "choice_points", "assert_queries", "assert_needing_solver", "feasibility_queries", "solver_queries", "violations"} {
				prev[k] = prev[k].(int) + row[k].(int)
			}
			prev["solver_s"] = round2(prev["solver_s"].(float64) + row["solver_s"].(float64))
			prev["worker_wall_s"] = round2(prev["worker_wall_s"].(float64) + row["wall_s"].(float64))
			prev["tasks"] = prev["tasks"].(int) + 1
			if len(r.inconc) > 0 {
				prev["inconclusive"] = r.inconc
			}
		} else {
			row["tasks"] = 1
			row["worker_wall_s"] = row["wall_s"]
			delete(row, "wall_s")
			delete(row, "shard")
			rowByHarness[hm.Name] = row
			harnessRows = append(harnessRows, row)
		}
		for _, ic := range r.inconc {
			inconclusive = append(inconclusive, hm.Name+": "+ic)
		}
		if hm.Expect == "violation" {
			if len(r.violations) > 0 {
				expectSeen[hm.Name] = true
			}
			continue
		}
		for _, v := range r.violations {
			g := hm.Name + "|" + v.Kind + "|" + v.Label
			known := matchFinding(findings, prop, hm, v)
			if known != nil {
				g += "|known:" + known.What
			}
			st := groups[g]
			if st == nil {
				st = &groupState{hm: hm, known: known}
				groups[g] = st
				groupOrder = append(groupOrder, g)
			}
			st.total++
			st.members = append(st.members, v)
		}
	}
	for _, g := range groupOrder {
		st := groups[g]
		hm := st.hm
		known := st.known
		for _, v := range diversify(st.members, 6) {
			if st.confirmed {
				break
			}
			cexN++
			path, err := writeReplay(prop, hm, v, cexN)
			if err != nil {
				inconclusive = append(inconclusive, "cannot write replay: "+err.Error())
				continue
			}
			st.attempts++
			if strings.Contains(v.Label, ".no-plain-write.") {
				// a plain write to shared memory is not observable by a sequential native run (it is a
				// data race only under a concurrent schedule): reported on the engine's evidence alone
				st.confirmed = true
				if known != nil {
					knownLines = append(knownLines, fmt.Sprintf("KNOWN-FINDING: property=%s %s", prop, known.What))
					continue
				}
				nViol++
				violLines = append(violLines, fmt.Sprintf("VIOLATION property=%s replay=%s", prop, path))
				notes = append(notes, fmt.Sprintf("%s %s %s (engine-only: shared-memory write) choices=%v", hm.Name, v.Kind, v.Label, v.Choices))
				continue
			}
			ro, err := nativeReplay(path)
			replayed++
			if err != nil || ro.BuildError {
				inconclusive = append(inconclusive, fmt.Sprintf("%s: replay of %s could not be built/run", hm.Name, path))
				if verbose {
					fmt.Fprintln(os.Stderr, ro.Output)
				}
				continue
			}
			if !ro.Reproduced {
				st.failedReplays = append(st.failedReplays, path)
				continue
			}
			st.confirmed = true
			if known != nil {
				knownLines = append(knownLines, fmt.Sprintf("KNOWN-FINDING: property=%s %s", prop, known.What))
				os.Remove(path)
				continue
			}
			nViol++
			violLines = append(violLines, fmt.Sprintf("VIOLATION property=%s replay=%s", prop, path))
			notes = append(notes, fmt.Sprintf("%s %s %s choices=%v values=%v %s", hm.Name, v.Kind, v.Label, v.Choices, v.Model, v.Msg))
		}
	}
	for _, g := range groupOrder {
		st := groups[g]
		if !st.confirmed {
			inconclusive = append(inconclusive, fmt.Sprintf("ENGINE-DISCREPANCY %s: %d counterexample(s), none of %d replays reproduced natively (e.g. %v)", g, st.total, st.attempts, st.failedReplays))
		} else {
			for _, p := range st.failedReplays {
				os.Remove(p)
			}
			if st.total > 1 {
				notes = append(notes, fmt.Sprintf("%s: %d counterexamples with distinct shapes share this label; one was replayed and confirmed", g, st.total))
			}
		}
	}
	crossChecked, crossUnknown := 0, 0
	if crossEvery > 0 {
		var all []sym.CrossQuery
		for _, r := range results {
			all = append(all, r.cross...)
		}
		var dis []string
		crossChecked, crossUnknown, dis = crossCheck(all, 40)
		for _, d := range dis {
			inconclusive = append(inconclusive, "SOLVER-DISAGREEMENT: "+d)
		}
	}
	// engine-vs-native differential: sampled complete paths (a model of each path condition) are replayed
	// against the real build; the engine found every assertion to hold on them, so the native run must too
	if os.Getenv("VERIF_NO_DIFF") == "" {
		okN, bad := runDifferential(diffCases)
		replayed += okN
		for _, b := range bad {
			inconclusive = append(inconclusive, "ENGINE-DISCREPANCY (sampled path behaves differently natively): "+b)
		}
	}
	// vacuity: every harness must have reached at least one Reach label; twins must be violated
	for _, hm := range selected {
		if hm.Expect == "violation" {
			if !expectSeen[hm.Name] {
				inconclusive = append(inconclusive, "vacuity twin "+hm.Name+" was NOT violated: harness does not reach its assertion")
			}
			continue
		}
		if len(reachedBy[hm.Name]) == 0 {
			inconclusive = append(inconclusive, "harness "+hm.Name+" reached no vacuity witness (nd.Reach)")
		}
	}
	sort.Strings(knownLines)
	knownLines = uniq(knownLines)
	for _, l := range knownLines {
		fmt.Println(l)
	}
	for _, l := range violLines {
		fmt.Println(l)
	}
	if verbose {
		for _, n := range notes {
			fmt.Fprintln(os.Stderr, "  cex:", n)
		}
	}
	if nViol > 0 {
		exit = 1
	} else if len(inconclusive) > 0 {
		exit = 2
		for _, ic := range uniq(inconclusive) {
			fmt.Fprintf(os.Stderr, "INCONCLUSIVE property=%s: %s\n", prop, ic)
		}
	}

	// functions encoded, split by origin
	var fRepo, fDep, fStub, fIntr []string
	for k := range funcs {
		switch {
		case strings.HasPrefix(k, "stub:"):
			fStub = append(fStub, strings.TrimPrefix(k, "stub:"))
		case strings.HasPrefix(k, "intrinsic:"):
			fIntr = append(fIntr, strings.TrimPrefix(k, "intrinsic:"))
		case strings.Contains(k, "zz_verif") || strings.Contains(k, "/zzverif/") || strings.Contains(k, ".H_") || isHarnessFunc(k):
			fStub = append(fStub, k)
		case strings.Contains(k, modPath):
			fRepo = append(fRepo, k)
		default:
			fDep = append(fDep, k)
		}
	}
	sort.Strings(fRepo)
	sort.Strings(fDep)
	sort.Strings(fStub)
	sort.Strings(fIntr)
	var boundsList []string
	for _, hm := range selected {
		boundsList = append(boundsList, hm.Name+": "+hm.Bounds)
	}
	if len(samples) == 0 {
		samples = append(samples, map[string]interface{}{"note": "no completed path produced a model"})
	}
	ev := map[string]interface{}{
		"property_id": prop,
		"tier":        tier,
		"seed":        seed,
		"level":       "model_checking",
		"wall_s":      round2(time.Since(start).Seconds()),
		"violations":  nViol,
		"coverage": map[string]interface{}{
			"states":                        max(agg.paths, 0),
			"transitions":                   agg.choice,
			"traces_validated_against_impl": replayed,
			"samples":                       samples,
			"evaluations":                   agg.asserts,
			"distinct_nontrivial":           agg.nontriv,
			"rule": "states = complete symbolic paths of the harness through the real SSA; transitions = choice points (symbolic branches with both sides feasible, nd.Choice case splits); " +
				"evaluations = assertion instances reached (one per assertion per path); distinct_nontrivial = those instances (each under a different path condition) that needed the solver: either the query pc ∧ ¬assert was sent to it, or the assertion was constant on a path whose symbolic path condition had been established by solver feasibility queries; instances on paths with an empty path condition and constant outcome are not counted",
			"exhaustive":            len(inconclusive) == 0,
			"technique":             "bounded symbolic execution of go/ssa built from /repo's working tree; every assertion decided by SMT (unsat = holds for all values within bounds)",
			"harnesses":             harnessRows,
			"bounds":                boundsList,
			"functions_encoded_repo": fRepo,
			"functions_encoded_dependencies_from_source": fDep,
			"stubs_and_harness_functions":                fStub,
			"engine_intrinsics":                          fIntr,
			"assert_labels":                              labels,
			"vacuity_witnesses":                          reached,
			"paths_cut_by_assumption":                    agg.aborted,
			"ssa_instructions_executed":                  agg.steps,
			"solver":                                     solver,
			"solver_queries":                             agg.solverQ,
			"solver_sat":                                 agg.sat,
			"solver_unsat":                               agg.unsat,
			"solver_unknown":                             agg.unk,
			"feasibility_queries":                        agg.feas,
			"feasibility_unknown":                        agg.unkF,
			"assertion_unknown":                          agg.unkA,
			"solver_time_s":                              round2(agg.solverTime.Seconds()),
			"per_query_timeout_ms":                       timeoutMs,
			"cross_solver_rechecks_z3new_cvc5":           crossChecked,
			"cross_solver_secondary_unknown":             crossUnknown,
			"inconclusive":                               uniq(inconclusive),
			"known_findings_reported":                    knownLines,
			"dropped_harness_files":                      ld.dropped,
		},
		"assumptions": assumptionsFor(prop, fStub, fIntr),
	}
	if only == nil || prop != "DEV" {
		os.MkdirAll(filepath.Join(outDir, "evidence"), 0o755)
		b, _ := json.MarshalIndent(ev, "", " ")
		os.WriteFile(filepath.Join(outDir, "evidence", prop+".json"), b, 0o644)
	}
	fmt.Fprintf(os.Stderr, "%s %s: harnesses=%d jobs=%d paths=%d asserts=%d (solver-decided %d) queries=%d solver=%.1fs wall=%.1fs violations=%d known=%d inconclusive=%d => exit %d\n",
		prop, tier, len(selected), len(jobs), agg.paths, agg.asserts, agg.nontriv, agg.solverQ, agg.solverTime.Seconds(), time.Since(start).Seconds(), nViol, len(knownLines), len(uniq(inconclusive)), exit)
	return exit
}

func isHarnessFunc(k string) bool {
	return strings.Contains(k, ".h_") || strings.Contains(k, ".ref") || strings.Contains(k, ".stub") || strings.Contains(k, ".nd")
}

func round2(f float64) float64 { return float64(int(f*100+0.5)) / 100 }

func uniq(s []string) []string {
	sort.Strings(s)
	var out []string
	for i, x := range s {
		if i == 0 || x != s[i-1] {
			out = append(out, x)
		}
	}
	return out
}

func assumptionsFor(prop string, stubs, intr []string) []string {
	a := []string{
		"go/ssa (x/tools v0.29.0) lowering of /repo's current working tree is faithful to the Go compiler",
		"the symgo executor implements Go semantics for the instructions it executed (validated by native replay of every counterexample and by engine-vs-native differential runs)",
		"solver verdicts of z3 4.8.12 are correct (any '(error' output or 'unknown' makes the run inconclusive)",
		"NaN is excluded from symbolic doubles; slice capacity growth is modelled as doubling",
	}
	if len(stubs) > 0 {
		a = append(a, "environment stubs / harness-side models executed instead of the real library: "+strings.Join(stubs, ", "))
	}
	if len(intr) > 0 {
		a = append(a, "engine intrinsics standing for standard-library functions: "+strings.Join(intr, ", "))
	}
	return a
}
