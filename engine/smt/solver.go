package smt

import (
	"bufio"
	"fmt"
	"io"
	"os"
	"os/exec"
	"strconv"
	"strings"
	"time"
)

type Result int

const (
	Unsat Result = iota
	Sat
	Unknown
)

func (r Result) String() string {
	switch r {
	case Unsat:
		return "unsat"
	case Sat:
		return "sat"
	}
	return "unknown"
}

// Solver drives one long-lived SMT solver process over stdin/stdout.
type Solver struct {
	Kind      string // z3 | z3-new | cvc5
	st        *Store
	cmd       *exec.Cmd
	in        io.WriteCloser
	out       *bufio.Reader
	defined   map[int]bool
	TimeoutMs int
	Log       io.Writer // optional transcript

	Queries   int
	NSat      int
	NUnsat    int
	NUnknown  int
	Errors    []string
	SolveTime time.Duration
	stack     []*Term // assertions currently on the solver's stack, one push level each
	buf       strings.Builder
}

func NewSolver(kind string, st *Store, timeoutMs int) (*Solver, error) {
	s := &Solver{Kind: kind, st: st, TimeoutMs: timeoutMs}
	if err := s.start(); err != nil {
		return nil, err
	}
	return s, nil
}

func (s *Solver) start() error {
	var cmd *exec.Cmd
	switch s.Kind {
	case "z3":
		cmd = exec.Command("/usr/bin/z3", "-in", fmt.Sprintf("-t:%d", s.TimeoutMs))
	case "z3-new":
		cmd = exec.Command("z3-new", "-in", fmt.Sprintf("-t:%d", s.TimeoutMs))
	case "cvc5":
		cmd = exec.Command("cvc5", "--incremental", "--produce-models", "--lang=smt2", fmt.Sprintf("--tlimit-per=%d", s.TimeoutMs))
	default:
		return fmt.Errorf("unknown solver %q", s.Kind)
	}
	in, err := cmd.StdinPipe()
	if err != nil {
		return err
	}
	out, err := cmd.StdoutPipe()
	if err != nil {
		return err
	}
	cmd.Stderr = os.Stderr
	if err := cmd.Start(); err != nil {
		return err
	}
	s.cmd, s.in, s.out = cmd, in, bufio.NewReaderSize(out, 1<<16)
	s.defined = map[int]bool{}
	s.stack = nil
	if s.Kind == "cvc5" {
		s.send("(set-option :global-declarations true)\n(set-logic ALL)\n")
	} else {
		s.send("(set-option :global-declarations true)\n(set-option :produce-models true)\n")
	}
	return nil
}

func (s *Solver) Close() {
	if s.cmd != nil {
		s.in.Close()
		done := make(chan struct{})
		go func() { s.cmd.Wait(); close(done) }()
		select {
		case <-done:
		case <-time.After(2 * time.Second):
			s.cmd.Process.Kill()
		}
		s.cmd = nil
	}
}

// Restart kills the process and forgets all definitions (used after a hang).
func (s *Solver) Restart() error {
	if s.cmd != nil {
		s.cmd.Process.Kill()
		s.cmd.Wait()
		s.cmd = nil
	}
	return s.start()
}

func (s *Solver) send(txt string) {
	if s.Log != nil {
		io.WriteString(s.Log, txt)
	}
	io.WriteString(s.in, txt)
}

func sortStr(w Sort) string {
	if w == 0 {
		return "Bool"
	}
	return fmt.Sprintf("(_ BitVec %d)", int(w))
}

func quote(name string) string {
	return "|" + strings.NewReplacer("|", "_", "\\", "_").Replace(name) + "|"
}

func constStr(t *Term) string {
	if t.S == 0 {
		if t.C == 1 {
			return "true"
		}
		return "false"
	}
	if t.S%4 == 0 {
		return fmt.Sprintf("#x%0*x", int(t.S)/4, t.C)
	}
	return fmt.Sprintf("#b%0*b", int(t.S), t.C)
}

func (s *Solver) ref(t *Term) string {
	switch t.Op {
	case OpConst:
		return constStr(t)
	case OpVar:
		return quote(t.Name)
	}
	return "t" + strconv.Itoa(t.ID)
}

func fpw(t *Term) string {
	if t.S == 32 {
		return "(_ to_fp 8 24)"
	}
	return "(_ to_fp 11 53)"
}

var opNames = map[Op]string{
	OpNot: "not", OpAnd: "and", OpOr: "or", OpIte: "ite", OpEq: "=",
	OpAdd: "bvadd", OpSub: "bvsub", OpMul: "bvmul", OpUDiv: "bvudiv", OpURem: "bvurem",
	OpSDiv: "bvsdiv", OpSRem: "bvsrem", OpBAnd: "bvand", OpBOr: "bvor", OpBXor: "bvxor",
	OpBNot: "bvnot", OpNeg: "bvneg", OpShl: "bvshl", OpLShr: "bvlshr", OpAShr: "bvashr",
	OpULt: "bvult", OpULe: "bvule", OpSLt: "bvslt", OpSLe: "bvsle", OpConcat: "concat",
}

func (s *Solver) body(t *Term) string {
	r := func(i int) string { return s.ref(t.Args[i]) }
	fp := func(i int) string { return "(" + fpw(t.Args[i]) + " " + r(i) + ")" }
	switch t.Op {
	case OpExtract:
		return fmt.Sprintf("((_ extract %d %d) %s)", t.P1, t.P2, r(0))
	case OpZExt:
		return fmt.Sprintf("((_ zero_extend %d) %s)", t.P1, r(0))
	case OpSExt:
		return fmt.Sprintf("((_ sign_extend %d) %s)", t.P1, r(0))
	case OpFLt:
		return fmt.Sprintf("(fp.lt %s %s)", fp(0), fp(1))
	case OpFLe:
		return fmt.Sprintf("(fp.leq %s %s)", fp(0), fp(1))
	case OpFEq:
		return fmt.Sprintf("(fp.eq %s %s)", fp(0), fp(1))
	case OpFIsNaN:
		return fmt.Sprintf("(fp.isNaN %s)", fp(0))
	}
	name, ok := opNames[t.Op]
	if !ok {
		panic(fmt.Sprintf("smt: cannot print op %d", t.Op))
	}
	var b strings.Builder
	b.WriteByte('(')
	b.WriteString(name)
	for i := range t.Args {
		b.WriteByte(' ')
		b.WriteString(r(i))
	}
	b.WriteByte(')')
	return b.String()
}

// define emits (at assertion level 0) everything needed to mention t.
func (s *Solver) define(root *Term, w *strings.Builder) {
	if root.Op == OpConst || s.defined[root.ID] {
		return
	}
	type fr struct {
		t *Term
		i int
	}
	stack := []fr{{root, 0}}
	for len(stack) > 0 {
		f := &stack[len(stack)-1]
		t := f.t
		if t.Op == OpConst || s.defined[t.ID] {
			stack = stack[:len(stack)-1]
			continue
		}
		if f.i < len(t.Args) {
			a := t.Args[f.i]
			f.i++
			if a.Op != OpConst && !s.defined[a.ID] {
				stack = append(stack, fr{a, 0})
			}
			continue
		}
		stack = stack[:len(stack)-1]
		s.defined[t.ID] = true
		switch t.Op {
		case OpVar:
			fmt.Fprintf(w, "(declare-const %s %s)\n", quote(t.Name), sortStr(t.S))
		case OpFConv:
			a := s.ref(t.Args[0])
			me := s.ref(t)
			fmt.Fprintf(w, "(declare-const %s %s)\n", me, sortStr(t.S))
			switch t.P1 {
			case FConvS64ToF64:
				fmt.Fprintf(w, "(assert (= ((_ to_fp 11 53) %s) ((_ to_fp 11 53) RNE %s)))\n", me, a)
			case FConvU64ToF64:
				fmt.Fprintf(w, "(assert (= ((_ to_fp 11 53) %s) ((_ to_fp_unsigned 11 53) RNE %s)))\n", me, a)
			case FConvF32ToF64:
				fmt.Fprintf(w, "(assert (= ((_ to_fp 11 53) %s) ((_ to_fp 11 53) RNE ((_ to_fp 8 24) %s))))\n", me, a)
			case FConvF64ToF32:
				fmt.Fprintf(w, "(assert (= ((_ to_fp 8 24) %s) ((_ to_fp 8 24) RNE ((_ to_fp 11 53) %s))))\n", me, a)
			case FConvS64ToF32:
				fmt.Fprintf(w, "(assert (= ((_ to_fp 8 24) %s) ((_ to_fp 8 24) RNE %s)))\n", me, a)
			case FConvU64ToF32:
				fmt.Fprintf(w, "(assert (= ((_ to_fp 8 24) %s) ((_ to_fp_unsigned 8 24) RNE %s)))\n", me, a)
			case FConvF64ToS64:
				fmt.Fprintf(w, "(assert (= %s ((_ fp.to_sbv 64) RTZ ((_ to_fp 11 53) %s))))\n", me, a)
			case FConvF64ToU64:
				fmt.Fprintf(w, "(assert (= %s ((_ fp.to_ubv 64) RTZ ((_ to_fp 11 53) %s))))\n", me, a)
			}
		case OpFArith:
			me := s.ref(t)
			fmt.Fprintf(w, "(declare-const %s %s)\n", me, sortStr(t.S))
			ops := []string{"fp.add", "fp.sub", "fp.mul", "fp.div"}
			fmt.Fprintf(w, "(assert (= (%s %s) (%s RNE (%s %s) (%s %s))))\n", fpw(t), me, ops[t.P1],
				fpw(t), s.ref(t.Args[0]), fpw(t), s.ref(t.Args[1]))
		default:
			fmt.Fprintf(w, "(define-fun t%d () %s %s)\n", t.ID, sortStr(t.S), s.body(t))
		}
	}
}

const endMark = "<<END>>"

// roundTrip sends text followed by an echo marker and returns the output lines
// before the marker.
func (s *Solver) roundTrip(txt string) ([]string, error) {
	s.send(txt)
	s.send("(echo \"" + endMark + "\")\n")
	var lines []string
	for {
		line, err := s.out.ReadString('\n')
		if err != nil {
			return lines, fmt.Errorf("solver died: %v", err)
		}
		line = strings.TrimRight(line, "\r\n")
		if strings.Contains(line, endMark) {
			return lines, nil
		}
		if line != "" {
			lines = append(lines, line)
		}
	}
}

// Check decides satisfiability of the conjunction of asserts. If wantModel is
// non-nil and the result is Sat, the values of those terms are returned.
func (s *Solver) Check(asserts []*Term, wantModel []*Term) (Result, map[int]uint64) {
	start := time.Now()
	defer func() { s.SolveTime += time.Since(start) }()
	s.Queries++
	var b strings.Builder
	for _, a := range asserts {
		s.define(a, &b)
	}
	for _, m := range wantModel {
		s.define(m, &b)
	}
	b.WriteString("(push 1)\n")
	for _, a := range asserts {
		if a.IsTrue() {
			continue
		}
		b.WriteString("(assert ")
		b.WriteString(s.ref(a))
		b.WriteString(")\n")
	}
	b.WriteString("(check-sat)\n")
	lines, err := s.roundTrip(b.String())
	res := Unknown
	var model map[int]uint64
	if err != nil {
		s.Errors = append(s.Errors, err.Error())
		s.Restart()
		s.NUnknown++
		return Unknown, nil
	}
	bad := false
	for _, l := range lines {
		switch {
		case l == "sat":
			res = Sat
		case l == "unsat":
			res = Unsat
		case l == "unknown" || l == "timeout":
			res = Unknown
		case strings.HasPrefix(l, "(error"):
			bad = true
			s.Errors = append(s.Errors, l)
		}
	}
	if bad {
		res = Unknown
	}
	if res == Sat && len(wantModel) > 0 {
		var q strings.Builder
		q.WriteString("(get-value (")
		for _, m := range wantModel {
			q.WriteString(s.ref(m))
			q.WriteByte(' ')
		}
		q.WriteString("))\n")
		ml, err := s.roundTrip(q.String())
		if err == nil {
			vals, perr := parseValues(strings.Join(ml, " "))
			if perr == nil && len(vals) == len(wantModel) {
				model = map[int]uint64{}
				for i, m := range wantModel {
					model[m.ID] = vals[i]
				}
			} else {
				s.Errors = append(s.Errors, fmt.Sprintf("model parse: %v (%d/%d)", perr, len(vals), len(wantModel)))
			}
		}
	}
	s.roundTrip("(pop 1)\n")
	switch res {
	case Sat:
		s.NSat++
	case Unsat:
		s.NUnsat++
	default:
		s.NUnknown++
	}
	return res, model
}

// hasAxiomTerm reports whether an undefined conversion/arithmetic constant (which needs a
// level-0 axiom) is reachable from t.
func (s *Solver) hasAxiomTerm(t *Term, seen map[int]bool) bool {
	if t.Op == OpConst || s.defined[t.ID] || seen[t.ID] {
		return false
	}
	seen[t.ID] = true
	if t.Op == OpFConv || t.Op == OpFArith {
		return true
	}
	for _, a := range t.Args {
		if s.hasAxiomTerm(a, seen) {
			return true
		}
	}
	return false
}

// CheckInc decides pc ∧ extra keeping the path condition on the solver's assertion stack
// between calls (consecutive paths share long prefixes).
func (s *Solver) CheckInc(pc []*Term, extra *Term, wantModel []*Term) (Result, map[int]uint64) {
	start := time.Now()
	defer func() { s.SolveTime += time.Since(start) }()
	s.Queries++
	var b strings.Builder
	// axioms must live at level 0
	seen := map[int]bool{}
	need := false
	for _, t := range pc {
		if s.hasAxiomTerm(t, seen) {
			need = true
		}
	}
	if extra != nil && s.hasAxiomTerm(extra, seen) {
		need = true
	}
	if need && len(s.stack) > 0 {
		fmt.Fprintf(&b, "(pop %d)\n", len(s.stack))
		s.stack = s.stack[:0]
	}
	k := 0
	for k < len(s.stack) && k < len(pc) && s.stack[k] == pc[k] {
		k++
	}
	if k < len(s.stack) {
		fmt.Fprintf(&b, "(pop %d)\n", len(s.stack)-k)
		s.stack = s.stack[:k]
	}
	if len(s.stack) == 0 {
		// level 0: definitions with axioms are safe here
		for _, t := range pc {
			s.define(t, &b)
		}
		if extra != nil {
			s.define(extra, &b)
		}
	}
	for _, t := range pc[k:] {
		s.define(t, &b)
		b.WriteString("(push 1)\n(assert ")
		b.WriteString(s.ref(t))
		b.WriteString(")\n")
		s.stack = append(s.stack, t)
	}
	if extra != nil {
		s.define(extra, &b)
	}
	for _, m := range wantModel {
		s.define(m, &b)
	}
	b.WriteString("(push 1)\n")
	if extra != nil && !extra.IsTrue() {
		b.WriteString("(assert " + s.ref(extra) + ")\n")
	}
	b.WriteString("(check-sat)\n")
	lines, err := s.roundTrip(b.String())
	res := Unknown
	var model map[int]uint64
	if err != nil {
		s.Errors = append(s.Errors, err.Error())
		s.Restart()
		s.NUnknown++
		return Unknown, nil
	}
	bad := false
	for _, l := range lines {
		switch {
		case l == "sat":
			res = Sat
		case l == "unsat":
			res = Unsat
		case l == "unknown" || l == "timeout":
			res = Unknown
		case strings.HasPrefix(l, "(error"):
			bad = true
			s.Errors = append(s.Errors, l)
		}
	}
	if bad {
		res = Unknown
	}
	if res == Sat && len(wantModel) > 0 {
		var q strings.Builder
		q.WriteString("(get-value (")
		for _, m := range wantModel {
			q.WriteString(s.ref(m))
			q.WriteByte(' ')
		}
		q.WriteString("))\n")
		ml, err := s.roundTrip(q.String())
		if err == nil {
			vals, perr := parseValues(strings.Join(ml, " "))
			if perr == nil && len(vals) == len(wantModel) {
				model = map[int]uint64{}
				for i, m := range wantModel {
					model[m.ID] = vals[i]
				}
			} else {
				s.Errors = append(s.Errors, fmt.Sprintf("model parse: %v (%d/%d)", perr, len(vals), len(wantModel)))
			}
		}
	}
	s.roundTrip("(pop 1)\n")
	switch res {
	case Sat:
		s.NSat++
	case Unsat:
		s.NUnsat++
	default:
		s.NUnknown++
	}
	return res, model
}

// Standalone renders the query as a self-contained SMT-LIB2 script (for
// cross-solver checking).
func Standalone(st *Store, asserts []*Term) string {
	tmp := &Solver{st: st, defined: map[int]bool{}}
	var b strings.Builder
	b.WriteString("(set-logic ALL)\n")
	for _, a := range asserts {
		tmp.define(a, &b)
	}
	for _, a := range asserts {
		if a.IsTrue() {
			continue
		}
		b.WriteString("(assert " + tmp.ref(a) + ")\n")
	}
	b.WriteString("(check-sat)\n")
	return b.String()
}

// parseValues parses "((name val) (name val) ...)" returning values in order.
func parseValues(sx string) ([]uint64, error) {
	toks := tokenize(sx)
	var vals []uint64
	// expect: ( ( name val ) ... )
	i := 0
	if i >= len(toks) || toks[i] != "(" {
		return nil, fmt.Errorf("no open paren in %q", sx)
	}
	i++
	for i < len(toks) && toks[i] == "(" {
		i++
		// name: single token (possibly quoted, tokenizer keeps |..| whole)
		i++
		// value: token or parenthesised expr like (_ bv5 64)
		if i >= len(toks) {
			return nil, fmt.Errorf("truncated")
		}
		if toks[i] == "(" {
			// (_ bvN W)
			if i+4 < len(toks) && toks[i+1] == "_" && strings.HasPrefix(toks[i+2], "bv") {
				n, err := strconv.ParseUint(toks[i+2][2:], 10, 64)
				if err != nil {
					return nil, err
				}
				vals = append(vals, n)
				i += 5
			} else {
				return nil, fmt.Errorf("unexpected value form near %v", toks[i:min(i+6, len(toks))])
			}
		} else {
			v, err := parseLit(toks[i])
			if err != nil {
				return nil, err
			}
			vals = append(vals, v)
			i++
		}
		if i >= len(toks) || toks[i] != ")" {
			return nil, fmt.Errorf("expected ) after value")
		}
		i++
	}
	return vals, nil
}

func parseLit(t string) (uint64, error) {
	switch {
	case t == "true":
		return 1, nil
	case t == "false":
		return 0, nil
	case strings.HasPrefix(t, "#x"):
		return strconv.ParseUint(t[2:], 16, 64)
	case strings.HasPrefix(t, "#b"):
		return strconv.ParseUint(t[2:], 2, 64)
	}
	return 0, fmt.Errorf("bad literal %q", t)
}

func tokenize(s string) []string {
	var toks []string
	i := 0
	for i < len(s) {
		c := s[i]
		switch {
		case c == ' ' || c == '\t' || c == '\n' || c == '\r':
			i++
		case c == '(' || c == ')':
			toks = append(toks, string(c))
			i++
		case c == '|':
			j := strings.IndexByte(s[i+1:], '|')
			if j < 0 {
				toks = append(toks, s[i:])
				return toks
			}
			toks = append(toks, s[i:i+j+2])
			i += j + 2
		default:
			j := i
			for j < len(s) && !strings.ContainsRune(" \t\n\r()", rune(s[j])) {
				j++
			}
			toks = append(toks, s[i:j])
			i = j
		}
	}
	return toks
}
