// Package smt: hash-consed SMT terms (Bool and fixed-width bit-vectors, with
// IEEE doubles carried as bit patterns) plus a light simplifier.
package smt

import (
	"fmt"
	"math"
	"math/bits"
	"strconv"
	"strings"
)

type Op uint8

const (
	OpConst Op = iota
	OpVar
	OpNot
	OpAnd
	OpOr
	OpIte
	OpEq
	OpAdd
	OpSub
	OpMul
	OpUDiv
	OpURem
	OpSDiv
	OpSRem
	OpBAnd
	OpBOr
	OpBXor
	OpBNot
	OpNeg
	OpShl
	OpLShr
	OpAShr
	OpULt
	OpULe
	OpSLt
	OpSLe
	OpConcat
	OpExtract // P1=hi P2=lo
	OpZExt    // P1=extra bits
	OpSExt    // P1=extra bits
	// floating point over bit patterns; W = 32 or 64 of the operand bits
	OpFLt
	OpFLe
	OpFEq
	OpFIsNaN
	// conversions realised by a fresh constant + a defining axiom (see Solver)
	OpFConv // P1 = kind (FConv*), result bits
	OpFArith // P1 = FArith kind, args 1 or 2
)

const (
	FConvS64ToF64 = iota
	FConvU64ToF64
	FConvF32ToF64
	FConvF64ToF32
	FConvS64ToF32
	FConvU64ToF32
	FConvF64ToS64 // round toward zero
	FConvF64ToU64
)

const (
	FAdd = iota
	FSub
	FMul
	FDiv
	FNegK
)

// Sort: 0 = Bool, n>0 = (_ BitVec n)
type Sort int

type Term struct {
	ID   int
	Op   Op
	Args []*Term
	S    Sort
	C    uint64 // constant payload (BV value masked to width, Bool 0/1)
	Name string // variable name
	P1   int
	P2   int
}

func (t *Term) IsConst() bool { return t.Op == OpConst }
func (t *Term) IsTrue() bool  { return t.Op == OpConst && t.S == 0 && t.C == 1 }
func (t *Term) IsFalse() bool { return t.Op == OpConst && t.S == 0 && t.C == 0 }

// Store hash-conses terms; one per worker (not safe for concurrent use).
type Store struct {
	tab   map[string]*Term
	terms []*Term
	vars  map[string]*Term
	True  *Term
	False *Term
}

func NewStore() *Store {
	s := &Store{tab: map[string]*Term{}, vars: map[string]*Term{}}
	s.True = s.mk(&Term{Op: OpConst, S: 0, C: 1})
	s.False = s.mk(&Term{Op: OpConst, S: 0, C: 0})
	return s
}

func (s *Store) NumTerms() int { return len(s.terms) }

func key(t *Term) string {
	var b strings.Builder
	b.WriteString(strconv.Itoa(int(t.Op)))
	b.WriteByte(':')
	b.WriteString(strconv.Itoa(int(t.S)))
	switch t.Op {
	case OpConst:
		b.WriteByte(':')
		b.WriteString(strconv.FormatUint(t.C, 16))
	case OpVar:
		b.WriteByte(':')
		b.WriteString(t.Name)
	default:
		if t.P1 != 0 || t.P2 != 0 {
			b.WriteByte('p')
			b.WriteString(strconv.Itoa(t.P1))
			b.WriteByte(',')
			b.WriteString(strconv.Itoa(t.P2))
		}
		for _, a := range t.Args {
			b.WriteByte(' ')
			b.WriteString(strconv.Itoa(a.ID))
		}
	}
	return b.String()
}

func (s *Store) mk(t *Term) *Term {
	k := key(t)
	if e, ok := s.tab[k]; ok {
		return e
	}
	t.ID = len(s.terms)
	s.terms = append(s.terms, t)
	s.tab[k] = t
	return t
}

func mask(w Sort) uint64 {
	if w >= 64 {
		return ^uint64(0)
	}
	return (uint64(1) << uint(w)) - 1
}

func (s *Store) Bool(b bool) *Term {
	if b {
		return s.True
	}
	return s.False
}

func (s *Store) BV(w int, v uint64) *Term {
	if w <= 0 || w > 64 {
		panic(fmt.Sprintf("smt: bad width %d", w))
	}
	return s.mk(&Term{Op: OpConst, S: Sort(w), C: v & mask(Sort(w))})
}

// Var returns the variable with this name (created on first use).
func (s *Store) Var(name string, sort Sort) *Term {
	if v, ok := s.vars[name]; ok {
		if v.S != sort {
			panic("smt: variable " + name + " redeclared with another sort")
		}
		return v
	}
	v := s.mk(&Term{Op: OpVar, S: sort, Name: name})
	s.vars[name] = v
	return v
}

func sext64(v uint64, w Sort) int64 {
	if w >= 64 {
		return int64(v)
	}
	sh := 64 - uint(w)
	return int64(v<<sh) >> sh
}

// ---- boolean ----

func (s *Store) Not(a *Term) *Term {
	if a.S != 0 {
		panic("smt: Not on non-bool")
	}
	if a.IsConst() {
		return s.Bool(a.C == 0)
	}
	if a.Op == OpNot {
		return a.Args[0]
	}
	return s.mk(&Term{Op: OpNot, S: 0, Args: []*Term{a}})
}

func (s *Store) And(a, b *Term) *Term {
	if a.IsConst() {
		if a.C == 0 {
			return s.False
		}
		return b
	}
	if b.IsConst() {
		if b.C == 0 {
			return s.False
		}
		return a
	}
	if a == b {
		return a
	}
	if (a.Op == OpNot && a.Args[0] == b) || (b.Op == OpNot && b.Args[0] == a) {
		return s.False
	}
	if a.ID > b.ID {
		a, b = b, a
	}
	return s.mk(&Term{Op: OpAnd, S: 0, Args: []*Term{a, b}})
}

func (s *Store) Or(a, b *Term) *Term {
	if a.IsConst() {
		if a.C == 1 {
			return s.True
		}
		return b
	}
	if b.IsConst() {
		if b.C == 1 {
			return s.True
		}
		return a
	}
	if a == b {
		return a
	}
	if (a.Op == OpNot && a.Args[0] == b) || (b.Op == OpNot && b.Args[0] == a) {
		return s.True
	}
	if a.ID > b.ID {
		a, b = b, a
	}
	return s.mk(&Term{Op: OpOr, S: 0, Args: []*Term{a, b}})
}

func (s *Store) Implies(a, b *Term) *Term { return s.Or(s.Not(a), b) }

func (s *Store) Ite(c, a, b *Term) *Term {
	if c.S != 0 || a.S != b.S {
		panic("smt: ill-sorted ite")
	}
	if c.IsConst() {
		if c.C == 1 {
			return a
		}
		return b
	}
	if a == b {
		return a
	}
	if a.S == 0 {
		if a.IsConst() && b.IsConst() {
			if a.C == 1 {
				return c
			}
			return s.Not(c)
		}
		if a.IsTrue() {
			return s.Or(c, b)
		}
		if a.IsFalse() {
			return s.And(s.Not(c), b)
		}
		if b.IsTrue() {
			return s.Or(s.Not(c), a)
		}
		if b.IsFalse() {
			return s.And(c, a)
		}
	}
	if c.Op == OpNot {
		return s.Ite(c.Args[0], b, a)
	}
	return s.mk(&Term{Op: OpIte, S: a.S, Args: []*Term{c, a, b}})
}

func (s *Store) Eq(a, b *Term) *Term {
	if a.S != b.S {
		panic(fmt.Sprintf("smt: Eq on different sorts %d %d", a.S, b.S))
	}
	if a == b {
		return s.True
	}
	if a.IsConst() && b.IsConst() {
		return s.Bool(a.C == b.C)
	}
	if a.S == 0 {
		if a.IsConst() {
			if a.C == 1 {
				return b
			}
			return s.Not(b)
		}
		if b.IsConst() {
			if b.C == 1 {
				return a
			}
			return s.Not(a)
		}
	}
	// eq(ite(c,k1,k2), k) with constants
	if b.IsConst() && a.Op == OpIte && a.Args[1].IsConst() && a.Args[2].IsConst() {
		return s.Ite(a.Args[0], s.Bool(a.Args[1].C == b.C), s.Bool(a.Args[2].C == b.C))
	}
	if a.IsConst() && b.Op == OpIte && b.Args[1].IsConst() && b.Args[2].IsConst() {
		return s.Ite(b.Args[0], s.Bool(b.Args[1].C == a.C), s.Bool(b.Args[2].C == a.C))
	}
	if a.ID > b.ID {
		a, b = b, a
	}
	return s.mk(&Term{Op: OpEq, S: 0, Args: []*Term{a, b}})
}

// ---- bit-vector arithmetic ----

func (s *Store) bin(op Op, a, b *Term) *Term {
	if a.S != b.S || a.S == 0 {
		panic(fmt.Sprintf("smt: ill-sorted bv op %d: %d %d", op, a.S, b.S))
	}
	w := a.S
	if a.IsConst() && b.IsConst() {
		x, y := a.C, b.C
		var r uint64
		ok := true
		switch op {
		case OpAdd:
			r = x + y
		case OpSub:
			r = x - y
		case OpMul:
			r = x * y
		case OpUDiv:
			if y == 0 {
				r = mask(w)
			} else {
				r = x / y
			}
		case OpURem:
			if y == 0 {
				r = x
			} else {
				r = x % y
			}
		case OpSDiv:
			sx, sy := sext64(x, w), sext64(y, w)
			if sy == 0 {
				if sx < 0 {
					r = 1
				} else {
					r = mask(w)
				}
			} else if sy == -1 {
				r = uint64(-sx)
			} else {
				r = uint64(sx / sy)
			}
		case OpSRem:
			sx, sy := sext64(x, w), sext64(y, w)
			if sy == 0 {
				r = x
			} else if sy == -1 {
				r = 0
			} else {
				r = uint64(sx % sy)
			}
		case OpBAnd:
			r = x & y
		case OpBOr:
			r = x | y
		case OpBXor:
			r = x ^ y
		case OpShl:
			if y >= uint64(w) {
				r = 0
			} else {
				r = x << y
			}
		case OpLShr:
			if y >= uint64(w) {
				r = 0
			} else {
				r = x >> y
			}
		case OpAShr:
			sx := sext64(x, w)
			if y >= uint64(w) {
				if sx < 0 {
					r = mask(w)
				} else {
					r = 0
				}
			} else {
				r = uint64(sx >> y)
			}
		default:
			ok = false
		}
		if ok {
			return s.BV(int(w), r)
		}
	}
	// identities
	switch op {
	case OpAdd, OpBOr, OpBXor:
		if a.IsConst() && a.C == 0 {
			return b
		}
		if b.IsConst() && b.C == 0 {
			return a
		}
	case OpSub, OpShl, OpLShr, OpAShr:
		if b.IsConst() && b.C == 0 {
			return a
		}
		if op == OpSub && a == b {
			return s.BV(int(w), 0)
		}
	case OpBAnd:
		if a.IsConst() && a.C == 0 || b.IsConst() && b.C == 0 {
			return s.BV(int(w), 0)
		}
		if a.IsConst() && a.C == mask(w) {
			return b
		}
		if b.IsConst() && b.C == mask(w) {
			return a
		}
	case OpMul:
		if a.IsConst() && a.C == 1 {
			return b
		}
		if b.IsConst() && b.C == 1 {
			return a
		}
		if a.IsConst() && a.C == 0 || b.IsConst() && b.C == 0 {
			return s.BV(int(w), 0)
		}
	}
	switch op {
	case OpAdd, OpMul, OpBAnd, OpBOr, OpBXor:
		if a.ID > b.ID {
			a, b = b, a
		}
	}
	return s.mk(&Term{Op: op, S: w, Args: []*Term{a, b}})
}

func (s *Store) Add(a, b *Term) *Term  { return s.bin(OpAdd, a, b) }
func (s *Store) Sub(a, b *Term) *Term  { return s.bin(OpSub, a, b) }
func (s *Store) Mul(a, b *Term) *Term  { return s.bin(OpMul, a, b) }
func (s *Store) UDiv(a, b *Term) *Term { return s.bin(OpUDiv, a, b) }
func (s *Store) URem(a, b *Term) *Term { return s.bin(OpURem, a, b) }
func (s *Store) SDiv(a, b *Term) *Term { return s.bin(OpSDiv, a, b) }
func (s *Store) SRem(a, b *Term) *Term { return s.bin(OpSRem, a, b) }
func (s *Store) BAnd(a, b *Term) *Term { return s.bin(OpBAnd, a, b) }
func (s *Store) BOr(a, b *Term) *Term  { return s.bin(OpBOr, a, b) }
func (s *Store) BXor(a, b *Term) *Term { return s.bin(OpBXor, a, b) }
func (s *Store) Shl(a, b *Term) *Term  { return s.bin(OpShl, a, b) }
func (s *Store) LShr(a, b *Term) *Term { return s.bin(OpLShr, a, b) }
func (s *Store) AShr(a, b *Term) *Term { return s.bin(OpAShr, a, b) }

func (s *Store) BNot(a *Term) *Term {
	if a.IsConst() {
		return s.BV(int(a.S), ^a.C)
	}
	if a.Op == OpBNot {
		return a.Args[0]
	}
	return s.mk(&Term{Op: OpBNot, S: a.S, Args: []*Term{a}})
}

func (s *Store) Neg(a *Term) *Term {
	if a.IsConst() {
		return s.BV(int(a.S), -a.C)
	}
	return s.mk(&Term{Op: OpNeg, S: a.S, Args: []*Term{a}})
}

func (s *Store) cmp(op Op, a, b *Term) *Term {
	if a.S != b.S || a.S == 0 {
		panic("smt: ill-sorted bv comparison")
	}
	if a.IsConst() && b.IsConst() {
		switch op {
		case OpULt:
			return s.Bool(a.C < b.C)
		case OpULe:
			return s.Bool(a.C <= b.C)
		case OpSLt:
			return s.Bool(sext64(a.C, a.S) < sext64(b.C, b.S))
		case OpSLe:
			return s.Bool(sext64(a.C, a.S) <= sext64(b.C, b.S))
		}
	}
	if a == b {
		return s.Bool(op == OpULe || op == OpSLe)
	}
	// unsigned bounds
	if op == OpULt && b.IsConst() && b.C == 0 {
		return s.False
	}
	if op == OpULe && a.IsConst() && a.C == 0 {
		return s.True
	}
	if op == OpULe && b.IsConst() && b.C == mask(b.S) {
		return s.True
	}
	if op == OpULt && a.IsConst() && a.C == mask(a.S) {
		return s.False
	}
	// comparisons of zero-extended values against constants
	return s.mk(&Term{Op: op, S: 0, Args: []*Term{a, b}})
}

func (s *Store) ULt(a, b *Term) *Term { return s.cmp(OpULt, a, b) }
func (s *Store) ULe(a, b *Term) *Term { return s.cmp(OpULe, a, b) }
func (s *Store) SLt(a, b *Term) *Term { return s.cmp(OpSLt, a, b) }
func (s *Store) SLe(a, b *Term) *Term { return s.cmp(OpSLe, a, b) }

func (s *Store) Concat(hi, lo *Term) *Term {
	w := hi.S + lo.S
	if w > 64 {
		panic("smt: concat wider than 64")
	}
	if hi.IsConst() && lo.IsConst() {
		return s.BV(int(w), hi.C<<uint(lo.S)|lo.C)
	}
	return s.mk(&Term{Op: OpConcat, S: w, Args: []*Term{hi, lo}})
}

func (s *Store) Extract(a *Term, hi, lo int) *Term {
	if hi < lo || hi >= int(a.S) {
		panic("smt: bad extract")
	}
	w := hi - lo + 1
	if w == int(a.S) {
		return a
	}
	if a.IsConst() {
		return s.BV(w, a.C>>uint(lo))
	}
	switch a.Op {
	case OpZExt:
		inner := a.Args[0]
		if hi < int(inner.S) {
			return s.Extract(inner, hi, lo)
		}
		if lo >= int(inner.S) {
			return s.BV(w, 0)
		}
	case OpSExt:
		inner := a.Args[0]
		if hi < int(inner.S) {
			return s.Extract(inner, hi, lo)
		}
	case OpConcat:
		h, l := a.Args[0], a.Args[1]
		if hi < int(l.S) {
			return s.Extract(l, hi, lo)
		}
		if lo >= int(l.S) {
			return s.Extract(h, hi-int(l.S), lo-int(l.S))
		}
	case OpExtract:
		return s.Extract(a.Args[0], hi+a.P2, lo+a.P2)
	case OpIte:
		if a.Args[1].IsConst() && a.Args[2].IsConst() {
			return s.Ite(a.Args[0], s.Extract(a.Args[1], hi, lo), s.Extract(a.Args[2], hi, lo))
		}
	}
	return s.mk(&Term{Op: OpExtract, S: Sort(w), Args: []*Term{a}, P1: hi, P2: lo})
}

func (s *Store) ZExt(a *Term, to int) *Term {
	if int(a.S) == to {
		return a
	}
	if int(a.S) > to {
		panic("smt: zext to narrower")
	}
	if a.IsConst() {
		return s.BV(to, a.C)
	}
	if a.Op == OpZExt {
		return s.ZExt(a.Args[0], to)
	}
	return s.mk(&Term{Op: OpZExt, S: Sort(to), Args: []*Term{a}, P1: to - int(a.S)})
}

func (s *Store) SExt(a *Term, to int) *Term {
	if int(a.S) == to {
		return a
	}
	if int(a.S) > to {
		panic("smt: sext to narrower")
	}
	if a.IsConst() {
		return s.BV(to, uint64(sext64(a.C, a.S)))
	}
	return s.mk(&Term{Op: OpSExt, S: Sort(to), Args: []*Term{a}, P1: to - int(a.S)})
}

// ---- floating point over bit patterns ----

func f64(c uint64) float64 { return math.Float64frombits(c) }
func f32(c uint64) float32 { return math.Float32frombits(uint32(c)) }

func constFloat(a *Term) float64 {
	if a.S == 32 {
		return float64(f32(a.C))
	}
	return f64(a.C)
}

func (s *Store) fcmp(op Op, a, b *Term) *Term {
	if a.S != b.S || (a.S != 32 && a.S != 64) {
		panic("smt: ill-sorted fp comparison")
	}
	if a.IsConst() && b.IsConst() {
		x, y := constFloat(a), constFloat(b)
		switch op {
		case OpFLt:
			return s.Bool(x < y)
		case OpFLe:
			return s.Bool(x <= y)
		case OpFEq:
			return s.Bool(x == y)
		}
	}
	return s.mk(&Term{Op: op, S: 0, Args: []*Term{a, b}})
}

// UseFPTheory switches float comparisons back to the solver's FP theory (used to cross-validate
// the bit-vector encoding below).
var UseFPTheory = false

// ford maps IEEE bits to a signed integer whose order is the numeric order of the (non-NaN)
// value: negative values become the negated magnitude; -0 and +0 both map to 0.
func (s *Store) ford(a *Term) *Term {
	w := int(a.S)
	zero := s.BV(w, 0)
	minInt := s.BV(w, uint64(1)<<(uint(w)-1))
	return s.Ite(s.SLt(a, zero), s.Sub(minInt, a), a)
}

func (s *Store) FLt(a, b *Term) *Term {
	if UseFPTheory || (a.IsConst() && b.IsConst()) {
		return s.fcmp(OpFLt, a, b)
	}
	nn := s.And(s.Not(s.FIsNaN(a)), s.Not(s.FIsNaN(b)))
	return s.And(nn, s.SLt(s.ford(a), s.ford(b)))
}

func (s *Store) FLe(a, b *Term) *Term {
	if UseFPTheory || (a.IsConst() && b.IsConst()) {
		return s.fcmp(OpFLe, a, b)
	}
	nn := s.And(s.Not(s.FIsNaN(a)), s.Not(s.FIsNaN(b)))
	return s.And(nn, s.SLe(s.ford(a), s.ford(b)))
}

func (s *Store) FEq(a, b *Term) *Term {
	if UseFPTheory || (a.IsConst() && b.IsConst()) {
		return s.fcmp(OpFEq, a, b)
	}
	nn := s.And(s.Not(s.FIsNaN(a)), s.Not(s.FIsNaN(b)))
	return s.And(nn, s.Eq(s.ford(a), s.ford(b)))
}

func (s *Store) FIsNaN(a *Term) *Term {
	if a.IsConst() {
		x := constFloat(a)
		return s.Bool(x != x)
	}
	if UseFPTheory {
		return s.mk(&Term{Op: OpFIsNaN, S: 0, Args: []*Term{a}})
	}
	// exponent all ones and non-zero mantissa: magnitude bits above the infinity pattern
	w := int(a.S)
	var inf uint64 = 0x7FF0000000000000
	if w == 32 {
		inf = 0x7F800000
	}
	mag := s.BAnd(a, s.BV(w, (uint64(1)<<(uint(w)-1))-1))
	return s.ULt(s.BV(w, inf), mag)
}

// FConv builds a conversion; constants fold natively (Go semantics).
func (s *Store) FConv(kind int, a *Term) *Term {
	var rs Sort = 64
	switch kind {
	case FConvF64ToF32, FConvS64ToF32, FConvU64ToF32:
		rs = 32
	}
	if !UseFPTheory && !a.IsConst() && (kind == FConvS64ToF64 || kind == FConvU64ToF64) {
		return s.intToF64(a, kind == FConvS64ToF64)
	}
	if a.IsConst() {
		switch kind {
		case FConvS64ToF64:
			return s.BV(64, math.Float64bits(float64(sext64(a.C, a.S))))
		case FConvU64ToF64:
			return s.BV(64, math.Float64bits(float64(a.C)))
		case FConvF32ToF64:
			return s.BV(64, math.Float64bits(float64(f32(a.C))))
		case FConvF64ToF32:
			return s.BV(32, uint64(math.Float32bits(float32(f64(a.C)))))
		case FConvS64ToF32:
			return s.BV(32, uint64(math.Float32bits(float32(sext64(a.C, a.S)))))
		case FConvU64ToF32:
			return s.BV(32, uint64(math.Float32bits(float32(a.C))))
		case FConvF64ToS64:
			return s.BV(64, uint64(int64(f64(a.C))))
		case FConvF64ToU64:
			return s.BV(64, uint64(f64(a.C)))
		}
	}
	return s.mk(&Term{Op: OpFConv, S: rs, Args: []*Term{a}, P1: kind})
}

// intToF64 is the exact round-to-nearest-even conversion of a 64-bit integer to IEEE double bits as a
// pure bit-vector term (normalise by leading-zero count, round the 11 dropped bits, renormalise on carry).
// Its equivalence with (to_fp RNE x) / (to_fp_unsigned RNE x) for all 2^64 inputs is the lemma
// engine/lemmas/i2f.smt2 / u2f.smt2 (unsat in < 1 s), re-checked by setup_cmd.
func (s *Store) intToF64(x *Term, signed bool) *Term {
	c := func(v uint64) *Term { return s.BV(64, v) }
	sgn := s.False
	m := x
	if signed {
		sgn = s.SLt(x, c(0))
		m = s.Ite(sgn, s.Neg(x), x)
	}
	y, n := m, c(0)
	for _, st := range []struct{ probe, shift uint64 }{{32, 32}, {48, 16}, {56, 8}, {60, 4}, {62, 2}, {63, 1}} {
		z := s.Eq(s.LShr(y, c(st.probe)), c(0))
		y = s.Ite(z, s.Shl(y, c(st.shift)), y)
		n = s.Ite(z, s.Add(n, c(st.shift)), n)
	}
	norm, lz := y, n
	mant := s.LShr(norm, c(11))
	rem := s.BAnd(norm, c(0x7ff))
	up := s.Or(s.ULt(c(0x400), rem), s.And(s.Eq(rem, c(0x400)), s.Eq(s.BAnd(mant, c(1)), c(1))))
	mantr := s.Add(mant, s.Ite(up, c(1), c(0)))
	carry := s.Eq(s.LShr(mantr, c(53)), c(1))
	ex := s.Add(s.Sub(c(0x43e), lz), s.Ite(carry, c(1), c(0)))
	frac := s.Ite(carry, c(0), s.BAnd(mantr, c(0x000fffffffffffff)))
	bits := s.BOr(s.Ite(sgn, c(0x8000000000000000), c(0)), s.BOr(s.Shl(ex, c(52)), frac))
	return s.Ite(s.Eq(m, c(0)), c(0), bits)
}

func (s *Store) FArith(kind int, args ...*Term) *Term {
	w := args[0].S
	allc := true
	for _, a := range args {
		if !a.IsConst() {
			allc = false
		}
	}
	if allc && w == 64 {
		x := f64(args[0].C)
		var r float64
		switch kind {
		case FNegK:
			r = -x
		default:
			y := f64(args[1].C)
			switch kind {
			case FAdd:
				r = x + y
			case FSub:
				r = x - y
			case FMul:
				r = x * y
			case FDiv:
				r = x / y
			}
		}
		return s.BV(64, math.Float64bits(r))
	}
	if kind == FNegK {
		// sign-bit flip is exact on bit patterns
		return s.BXor(args[0], s.BV(int(w), uint64(1)<<(uint(w)-1)))
	}
	return s.mk(&Term{Op: OpFArith, S: w, Args: args, P1: kind})
}

// ---- helpers ----

func (s *Store) AndN(ts ...*Term) *Term {
	r := s.True
	for _, t := range ts {
		r = s.And(r, t)
	}
	return r
}

func (s *Store) OrN(ts ...*Term) *Term {
	r := s.False
	for _, t := range ts {
		r = s.Or(r, t)
	}
	return r
}

// Vars collects the variables (and conversion constants' inputs) reachable from ts.
func Vars(ts []*Term) []*Term {
	seen := map[int]bool{}
	var out []*Term
	var stack []*Term
	stack = append(stack, ts...)
	for len(stack) > 0 {
		t := stack[len(stack)-1]
		stack = stack[:len(stack)-1]
		if seen[t.ID] {
			continue
		}
		seen[t.ID] = true
		if t.Op == OpVar {
			out = append(out, t)
		}
		stack = append(stack, t.Args...)
	}
	return out
}

func LeadingZeros(v uint64) int { return bits.LeadingZeros64(v) }

// Eval evaluates t under a full assignment of its variables (used for model
// validation and concrete-mode differential testing).
func Eval(t *Term, env map[string]uint64, memo map[int]uint64) uint64 {
	if v, ok := memo[t.ID]; ok {
		return v
	}
	var r uint64
	a := func(i int) uint64 { return Eval(t.Args[i], env, memo) }
	b2u := func(b bool) uint64 {
		if b {
			return 1
		}
		return 0
	}
	w := t.S
	switch t.Op {
	case OpConst:
		r = t.C
	case OpVar:
		v, ok := env[t.Name]
		if !ok {
			v = 0
		}
		r = v & mask(maxSort(w))
	case OpNot:
		r = 1 - a(0)
	case OpAnd:
		r = a(0) & a(1)
	case OpOr:
		r = a(0) | a(1)
	case OpIte:
		if a(0) == 1 {
			r = a(1)
		} else {
			r = a(2)
		}
	case OpEq:
		r = b2u(a(0) == a(1))
	case OpExtract:
		r = (a(0) >> uint(t.P2)) & mask(w)
	case OpZExt:
		r = a(0)
	case OpSExt:
		r = uint64(sext64(a(0), t.Args[0].S)) & mask(w)
	case OpConcat:
		r = a(0)<<uint(t.Args[1].S) | a(1)
	case OpBNot:
		r = ^a(0) & mask(w)
	case OpNeg:
		r = (-a(0)) & mask(w)
	case OpULt:
		r = b2u(a(0) < a(1))
	case OpULe:
		r = b2u(a(0) <= a(1))
	case OpSLt:
		r = b2u(sext64(a(0), t.Args[0].S) < sext64(a(1), t.Args[0].S))
	case OpSLe:
		r = b2u(sext64(a(0), t.Args[0].S) <= sext64(a(1), t.Args[0].S))
	case OpFLt, OpFLe, OpFEq:
		var x, y float64
		if t.Args[0].S == 32 {
			x, y = float64(f32(a(0))), float64(f32(a(1)))
		} else {
			x, y = f64(a(0)), f64(a(1))
		}
		switch t.Op {
		case OpFLt:
			r = b2u(x < y)
		case OpFLe:
			r = b2u(x <= y)
		default:
			r = b2u(x == y)
		}
	case OpFIsNaN:
		var x float64
		if t.Args[0].S == 32 {
			x = float64(f32(a(0)))
		} else {
			x = f64(a(0))
		}
		r = b2u(x != x)
	case OpFConv:
		st := NewStore()
		r = st.FConv(t.P1, st.BV(int(t.Args[0].S), a(0))).C
	case OpFArith:
		st := NewStore()
		var as []*Term
		for i := range t.Args {
			as = append(as, st.BV(int(t.Args[i].S), a(i)))
		}
		r = st.FArith(t.P1, as...).C
	default:
		st := NewStore()
		r = st.bin(t.Op, st.BV(int(t.Args[0].S), a(0)), st.BV(int(t.Args[1].S), a(1))).C
	}
	memo[t.ID] = r
	return r
}

func maxSort(w Sort) Sort {
	if w == 0 {
		return 1
	}
	return w
}
